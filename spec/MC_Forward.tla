----------------------------- MODULE MC_Forward -----------------------------
EXTENDS Forward

(***************************************************************************)
(* A small model: TLC enumerates abstract requests and checks algebraic    *)
(* facts about the function (what is never touched).                       *)
(***************************************************************************)
CONSTANTS Atoms, MaxLen
Paths == UNION {[1..n -> Atoms] : n \in 0..MaxLen}
Prefixes == {<<>>, <<"app">>, <<"app", "v1">>}

VARIABLES segs, prefix, strip
Init == segs \in Paths /\ prefix \in Prefixes /\ strip \in BOOLEAN
Next == UNCHANGED <<segs, prefix, strip>>
Spec == Init /\ [][Next]_<<segs, prefix, strip>>

\* the output is always a suffix of the input, and only whole literal prefix segments are ever removed
Inv_Suffix == LET o == OutPathRaw(segs, prefix, strip) IN
              /\ Len(o) <= Len(segs)
              /\ \A i \in 1..Len(o) : o[i] = segs[Len(segs) - Len(o) + i]
              /\ Len(o) \in {Len(segs), Len(segs) - Len(prefix)}
Inv_NoStrip == ~strip => OutPathRaw(segs, prefix, strip) = segs
\* the prefix as a later segment is never removed
Inv_OnlyLeading == (strip /\ ~IsPrefixSeq(prefix, segs)) => OutPathRaw(segs, prefix, strip) = segs
=============================================================================
