"""Shared machinery for the checks: building the harness from /repo's working
tree, running the executor in parallel, running TLC (model checking and trace
validation), known-finding matching, evidence writing."""
import json, os, re, shutil, subprocess, sys, time, tempfile, glob, atexit, signal

VERIF = os.path.dirname(os.path.dirname(os.path.abspath(__file__)))
REPO = os.environ.get("VERIF_REPO", "/repo")
SPEC = os.path.join(VERIF, "spec")
HARNESS = os.path.join(VERIF, "harness")
NCPU = os.cpu_count() or 4

GOENV = dict(os.environ, GOFLAGS="-mod=mod", GOPROXY="off", GOSUMDB="off", GOTOOLCHAIN="local",
             GOCACHE=os.environ.get("GOCACHE", "/var/tmp/verif-gocache"))

_scratch = None


def scratch():
    global _scratch
    if _scratch is None:
        base = "/var/tmp"
        _scratch = tempfile.mkdtemp(prefix="verif-", dir=base)
        atexit.register(lambda: shutil.rmtree(_scratch, ignore_errors=True))
    return _scratch


class Inconclusive(Exception):
    pass


def java_opts(extra="", heap_mb=2048):
    """JAVA_TOOL_OPTIONS for a TLC run: its temporary directories go under our scratch directory, not /tmp, and its
    heap is capped (a check starts a dozen TLC processes side by side; the wrapper's default is a quarter of the RAM each)."""
    jt = os.path.join(scratch(), "jtmp")
    os.makedirs(jt, exist_ok=True)
    if "-Xmx" not in extra:
        extra = "-Xmx%dm %s" % (heap_mb, extra)
    return ("-Djava.io.tmpdir=%s %s" % (jt, extra)).strip()


class ProxyPanic(Exception):
    """The executor process died from a Go panic raised inside the proxy's own code."""
    def __init__(self, what, plan, text):
        super().__init__(what)
        self.what, self.plan, self.text = what, plan, text


class ProxyHang(ProxyPanic):
    """The scenario can never finish: goroutines are blocked for good inside the proxy's own code (synctest reports a
    deadlock of the bubble: everything is durably blocked and no timer is pending)."""


def _current_plan(out_dir):
    cur = os.path.join(out_dir, "current")
    if os.path.exists(cur):
        pf = os.path.join(out_dir, "plans", open(cur).read().strip() + ".json")
        if os.path.exists(pf):
            return json.load(open(pf))
    return None


def classify_hang(out_dir, output):
    if "deadlock: all goroutines in bubble are blocked" not in output and \
       "deadlock: main bubble goroutine has exited but blocked goroutines remain" not in output:
        return None
    stuck = []
    for blk in output.split("\n\n"):
        if not blk.startswith("goroutine ") or "synctest bubble" not in blk.split("\n", 1)[0]:
            continue
        frames = re.findall(r"^([\w./\-*()\[\]]+)\(", blk, re.M)
        frames = [f for f in frames if not f.startswith(("runtime.", "sync.", "internal/", "time.", "context."))]
        if frames and "kamal-proxy/internal/server" in frames[0]:
            stuck.append(frames[0].split("kamal-proxy/internal/server.")[-1])
    if not stuck:
        return None
    return ProxyHang("blocked for good in " + ", ".join(sorted(set(stuck))[:4]), _current_plan(out_dir), output[-3000:])


def classify_crash(out_dir, output):
    """Decide whether a dead executor is a panic of the proxy (a finding) or a problem of the harness."""
    h = classify_hang(out_dir, output)
    if h:
        return h
    m = re.search(r"^panic: (.*)$", output, re.M)
    fatal = re.search(r"^fatal error: (.*)$", output, re.M)
    if not m and not fatal:
        return None
    what = (m or fatal).group(1)
    if "deadlock: main bubble goroutine has exited" in output or "synctest" in what:
        return None
    # frames of the panicking goroutine: the first block after the panic line
    tail = output[(m or fatal).end():].lstrip("\n")
    block = tail.split("\n\n")[0] if "\n\n" in tail else tail
    frames = re.findall(r"^([\w./\-*()\[\]]+)\(", block, re.M)
    frames = [f for f in frames if not f.startswith(("runtime.", "panic(", "testing.", "internal/", "sync.", "net/http", "net."))]
    if not frames:
        return None
    top = frames[0]
    if "kamal-proxy/internal/server" in top or "kamal-proxy/internal/cmd" in top:
        plan = None
        cur = os.path.join(out_dir, "current")
        if os.path.exists(cur):
            pf = os.path.join(out_dir, "plans", open(cur).read().strip() + ".json")
            if os.path.exists(pf):
                plan = json.load(open(pf))
        return ProxyPanic(what + " in " + top, plan, output[-3000:])
    return None


def sh(cmd, **kw):
    return subprocess.run(cmd, **kw)


def build_harness(race=False):
    """Build the executor test binary from /repo's current working tree with hooks on."""
    out = os.path.join(scratch(), "harness-race.test" if race else "harness.test")
    if os.path.exists(out):
        return out
    # the harness module replaces the proxy module with /repo (or VERIF_REPO)
    hdir = os.path.join(scratch(), "harness-src")
    if not os.path.exists(hdir):
        shutil.copytree(HARNESS, hdir, ignore=shutil.ignore_patterns("*.test", "go.sum"))
        gm = open(os.path.join(hdir, "go.mod")).read().replace("=> /repo", "=> " + REPO)
        open(os.path.join(hdir, "go.mod"), "w").write(gm)
        shutil.copy(os.path.join(REPO, "go.sum"), os.path.join(hdir, "go.sum"))
    cmd = ["go1.26", "test", "-c", "-tags", "verif", "-o", out]
    if race:
        cmd.append("-race")
    cmd.append(".")
    p = sh(cmd, cwd=hdir, env=GOENV, capture_output=True, text=True)
    if p.returncode != 0:
        raise Inconclusive("harness build failed:\n" + p.stdout + p.stderr)
    return out


def run_executor(binary, family, n, seed, tier, procs=None, extra_env=None, plans_dir=None, timeout=1500, test="TestRun"):
    """Run n scenarios of a family split over processes; returns list of out dirs."""
    procs = procs or min(NCPU, max(1, n // 8))
    outs, ps = [], []
    per = (n + procs - 1) // procs
    first = 0
    i = 0
    while first < n or (plans_dir and i == 0):
        cnt = min(per, n - first) if not plans_dir else n
        out = os.path.join(scratch(), f"exec-{family}-{seed}-{i}-{int(time.time()*1000)%100000}")
        os.makedirs(out, exist_ok=True)
        env = dict(GOENV, VERIF_OUT=out, VERIF_FAMILY=family, VERIF_N=str(cnt), VERIF_FIRST=str(first),
                   VERIF_SEED=str(seed), VERIF_TIER=tier)
        if plans_dir:
            env["VERIF_FAMILY"] = "plans"
            env["VERIF_PLANS"] = plans_dir
        if extra_env:
            env.update(extra_env)
        p = subprocess.Popen([binary, "-test.run", "^" + test + "$", "-test.timeout", "150s" if tier == "quick" else "30m"], cwd=out, env=env,
                             stdout=subprocess.PIPE, stderr=subprocess.STDOUT, text=True)
        ps.append((p, out))
        outs.append(out)
        first += cnt
        i += 1
        if plans_dir:
            break
    deadline = time.time() + timeout
    for p, out in ps:
        try:
            o, _ = p.communicate(timeout=max(1, deadline - time.time()))
        except subprocess.TimeoutExpired:
            p.kill()
            raise Inconclusive("executor timed out")
        if p.returncode != 0:
            pp = classify_crash(out, o)
            if pp:
                raise pp
            raise Inconclusive("executor failed (exit %d):\n%s" % (p.returncode, o[-4000:]))
    return outs


# events the observable layer consumes (everything else is dropped before TLC sees the trace)
OBS_EVENTS = {"reset", "cmd_call", "cmd_ret", "tg_probe", "tg_probe_reply", "cli_send", "cli_recv", "cli_closed",
              "tg_beg", "tg_end", "end", "panic", "harness_error", "y_routed", "e_install", "e_update_lb",
              "y_pre_claim", "y_wait_snapshot", "y_wait_released", "e_remove", "e_pause_state", "e_claim", "e_claim_refused", "e_claim_none", "e_target_state", "e_hc_apply",
              "file_obs", "cfg_obs", "mem_obs", "list_obs"}


def filter_trace(src, dst, keep=OBS_EVENTS):
    n = 0
    with open(src) as f, open(dst, "w") as g:
        for line in f:
            m = re.search(r'"ev":"([^"]+)"', line)
            if m and m.group(1) in keep:
                g.write(line)
                n += 1
    return n


def tlc(module, cfg=None, workers=1, env=None, timeout=600, cwd=None, extra=None, deque=False):
    """Run TLC in a scratch copy of the spec directory. Returns (exit, output)."""
    wd = cwd or os.path.join(scratch(), "spec-%d" % (int(time.time() * 1e6) % 10**9))
    if not os.path.exists(wd):
        shutil.copytree(SPEC, wd)
    md = tempfile.mkdtemp(prefix="md-", dir=scratch())
    cmd = ["timeout", str(timeout), "tlc", "-workers", str(workers), "-metadir", md]
    if cfg:
        cmd += ["-config", cfg]
    if extra:
        cmd += extra
    cmd.append(module)
    e = dict(os.environ, JAVA_TOOL_OPTIONS=java_opts("-Dtlc2.tool.queue.IStateQueue=StateDeque" if deque else ""))
    if env:
        e.update(env)
    p = sh(cmd, cwd=wd, env=e, capture_output=True, text=True)
    shutil.rmtree(md, ignore_errors=True)
    return p.returncode, p.stdout + p.stderr


def tlc_stats(out):
    m = re.search(r"(\d+) states generated, (\d+) distinct states found", out)
    if not m:
        return 0, 0
    return int(m.group(2)), int(m.group(1))


def validate_traces(trace_files, module="ObsTrace.tla", cfg="ObsTrace.cfg", timeout=900):
    """Run the trace spec over each file (in parallel). Returns merged result."""
    jobs = []
    for i, tf in enumerate(trace_files):
        wd = os.path.join(scratch(), "tv-%d-%d" % (i, int(time.time() * 1e6) % 10**9))
        shutil.copytree(SPEC, wd)
        md = tempfile.mkdtemp(prefix="md-", dir=scratch())
        outp = tf + ".viol.json"
        e = dict(os.environ, VERIF_TRACE=tf, VERIF_OUT=outp, JAVA_TOOL_OPTIONS=java_opts(heap_mb=3072))
        cmd = ["timeout", str(timeout), "tlc", "-workers", "1", "-metadir", md, "-config", cfg, module]
        p = subprocess.Popen(cmd, cwd=wd, env=e, stdout=subprocess.PIPE, stderr=subprocess.STDOUT, text=True)
        jobs.append((p, tf, outp, wd, md))
    res = {"lines": 0, "violations": [], "coverage": {}, "states": 0, "files": 0}
    for p, tf, outp, wd, md in jobs:
        o, _ = p.communicate()
        shutil.rmtree(md, ignore_errors=True)
        shutil.rmtree(wd, ignore_errors=True)
        if p.returncode != 0 or not os.path.exists(outp):
            m = re.search(r"TLCSet|line (\d+)", o)
            raise Inconclusive("trace %s not accepted by %s (exit %d):\n%s" % (tf, module, p.returncode, o[-3000:]))
        d = json.load(open(outp))
        res["lines"] += d["lines"]
        res["files"] += 1
        for v in d["violations"]:
            v["trace"] = tf
            res["violations"].append(v)
        for k, c in (d.get("coverage") or {}).items() if isinstance(d.get("coverage"), dict) else []:
            res["coverage"][k] = res["coverage"].get(k, 0) + c
        st, _ = tlc_stats(o)
        res["states"] += st
    return res


# ---- known findings -------------------------------------------------------------

def load_known():
    """KNOWN_FINDINGS.txt: 'finding: property=C03 id=KF-x inv=C03_b sig=stale-ref <text>' and 'fixed: ...'."""
    path = os.path.join(VERIF, "KNOWN_FINDINGS.txt")
    out = []
    if not os.path.exists(path):
        return out
    for line in open(path):
        line = line.strip()
        if not line.startswith("finding:"):
            continue
        kv = dict(re.findall(r"(\w+)=(\S+)", line))
        kv["text"] = line
        out.append(kv)
    return out


def match_known(prop, v, known):
    for k in known:
        if k.get("property") != prop:
            continue
        if "inv" in k and v["inv"] not in k["inv"].split(","):
            continue
        if k.get("sig", "") not in v.get("sig", "").split("+"):
            continue
        if not v.get("sig"):
            # a finding without a signature must name its subject pattern explicitly
            if "subj" not in k or not re.fullmatch(k["subj"], str(v.get("subj", ""))):
                continue
        return k
    return None


def write_evidence(prop, tier, seed, level, coverage, wall, violations, assumptions=None):
    os.makedirs(os.path.join(VERIF, "evidence"), exist_ok=True)
    ev = {"property_id": prop, "tier": tier, "seed": int(seed), "level": level, "coverage": coverage,
          "wall_s": round(wall, 2), "violations": violations}
    if assumptions:
        ev["assumptions"] = assumptions
    with open(os.path.join(VERIF, "evidence", prop + ".json"), "w") as f:
        json.dump(ev, f, indent=1, sort_keys=True)


def save_replay(prop, n, obj):
    d = os.path.join(VERIF, "out", prop)
    os.makedirs(d, exist_ok=True)
    path = os.path.join(d, "%d.schedule.json" % n)
    json.dump(obj, open(path, "w"))
    return path


# ---- design-model runs -------------------------------------------------------------

def spec_copy(tag):
    wd = os.path.join(scratch(), "spec-%s-%d" % (tag, int(time.time() * 1e6) % 10**9))
    shutil.copytree(SPEC, wd)
    return wd


def cfg_with(wd, base_cfg, name, invariants=None, constants=None, drop_symmetry=False):
    """Derive a cfg from base_cfg: replace the INVARIANTS block and/or individual constants."""
    txt = open(os.path.join(wd, base_cfg)).read()
    if invariants is not None:
        head = txt.split("INVARIANTS")[0]
        tail = txt.split("INVARIANTS")[1]
        rest = [l for l in tail.splitlines() if l and not l.startswith(" ")]
        txt = head + "INVARIANTS\n" + "".join("  %s\n" % i for i in invariants) + "\n".join(rest) + "\n"
    for k, val in (constants or {}).items():
        txt = re.sub(r"(?m)^(\s*%s\s*=\s*).*$" % re.escape(k), lambda m: m.group(1) + val, txt)
    if drop_symmetry:
        txt = re.sub(r"(?m)^SYMMETRY.*\n", "", txt)
    open(os.path.join(wd, name), "w").write(txt)
    return name


def start_tlc(wd, module, cfg, workers=1, timeout=600, extra=None, heap_mb=2048):
    md = tempfile.mkdtemp(prefix="md-", dir=scratch())
    cmd = ["timeout", str(timeout), "tlc", "-workers", str(workers), "-metadir", md, "-config", cfg] + (extra or []) + [module]
    p = subprocess.Popen(cmd, cwd=wd, env=dict(os.environ, JAVA_TOOL_OPTIONS=java_opts(heap_mb=heap_mb)), stdout=subprocess.PIPE, stderr=subprocess.STDOUT, text=True)
    p._md = md
    return p


def finish_tlc(p):
    o, _ = p.communicate()
    shutil.rmtree(p._md, ignore_errors=True)
    return p.returncode, o


def tlc_verdict(rc, out):
    """'ok' | 'violated:<invariant>' | 'deadlock' | 'timeout' | 'error'"""
    if rc == 0:
        return "ok"
    m = re.search(r"Invariant (\w+) is violated", out)
    if m:
        return "violated:" + m.group(1)
    m = re.search(r"Temporal property (\w+) was violated|Temporal properties were violated", out)
    if m:
        return "temporal:" + (m.group(1) or "")
    if "Deadlock reached" in out:
        return "deadlock"
    if rc == 124:
        return "timeout"
    return "error"
