SPECIFICATION TraceSpec
CONSTANTS
  Cmds <- TCmds
  Kind <- TKind
  Name <- TName
  Bind <- TBind
  MayFail = TRUE
  AtomicInstall = TRUE
  DisposeOnConflict = TRUE
INVARIANTS
  O_Ownership
  O_FailedLeavesNothing
  O_NoLeak
POSTCONDITION Accepted
CHECK_DEADLOCK FALSE
