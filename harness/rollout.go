package harness

import (
	"fmt"
	"github.com/basecamp/kamal-proxy/internal/server"
	"hash/fnv"
	"io"
	"math/rand"
	"net/http"
	"strconv"
	"strings"
	"sync"
	"testing"
	"testing/synctest"
	"time"
)

// C10: the rollout decision as seen through the whole stack. A service with
// active and rollout targets is deployed; for a set of cookie values the split
// is set to every percentage (and to allowlists) and each value is sent as a
// real request; which target group answered is recorded for RolloutTrace.tla.

type rolloutCookie struct {
	id     string     // identity of the value in the trace
	lines  [][]string // Cookie header lines, each a list of "name=value" pairs
	value  string     // the kamal-rollout value ("" = absent)
	sample bool       // part of the uniformly random sample (share statistics)
}

func h32(s string) uint32 {
	h := fnv.New32a()
	h.Write([]byte(s))
	return h.Sum32()
}

// adversarial values: hashes at the very top / bottom of the range and right around percentage boundaries.
// (The specification does not know the hash; if the proxy used another one these are just more random values.)
func extremeValues(rng *rand.Rand, n int) []string {
	const offset32, prime32 = 2166136261, 16777619
	base := rng.Int63n(1 << 40)
	buf := make([]byte, 0, 32)
	bounds := []int{1, 25, 50, 75, 99}
	bval := make([]uint32, len(bounds))
	for i, p := range bounds {
		bval[i] = uint32(float64(^uint32(0)) * float64(p) / 100)
	}
	var top, bottom [3]struct {
		v string
		h uint32
	}
	for i := range bottom {
		bottom[i].h = ^uint32(0)
	}
	nearV := make([]string, len(bounds))
	nearD := make([]int64, len(bounds))
	for i := range nearD {
		nearD[i] = 1 << 40
	}
	for i := 0; i < n; i++ {
		buf = append(buf[:0], 'u', '-')
		buf = strconv.AppendInt(buf, base+int64(i), 36)
		h := uint32(offset32)
		for _, b := range buf {
			h ^= uint32(b)
			h *= prime32
		}
		if h > top[2].h {
			top[2].v, top[2].h = string(buf), h
			for j := 2; j > 0 && top[j].h > top[j-1].h; j-- {
				top[j], top[j-1] = top[j-1], top[j]
			}
		}
		if h < bottom[2].h {
			bottom[2].v, bottom[2].h = string(buf), h
			for j := 2; j > 0 && bottom[j].h < bottom[j-1].h; j-- {
				bottom[j], bottom[j-1] = bottom[j-1], bottom[j]
			}
		}
		if h&0xffff == 0 || h&0xffff == 0xffff { // cheap pre-filter before the boundary distance checks
			for k, b := range bval {
				d := int64(h) - int64(b)
				if d < 0 {
					d = -d
				}
				if d < nearD[k] {
					nearD[k], nearV[k] = d, string(buf)
				}
			}
		}
	}
	out := []string{}
	for _, c := range top {
		if c.v != "" {
			out = append(out, c.v)
		}
	}
	for _, c := range bottom {
		if c.v != "" {
			out = append(out, c.v)
		}
	}
	for _, v := range nearV {
		if v != "" {
			out = append(out, v)
		}
	}
	return out
}

func RunRollout(t *testing.T, scn int, seed int64, nSample int, extremeTries int, rec *Recorder, dir string) {
	synctest.Test(t, func(t *testing.T) {
		rng := rand.New(rand.NewSource(seed))
		plan := &Plan{Family: "rolloutfn", Sched: "free", Targets: map[string]TargetScript{
			"act1": {Then: ProbeOutcome{Class: "ok"}}, "act2": {Then: ProbeOutcome{Class: "ok"}}, "roll1": {Then: ProbeOutcome{Class: "ok"}}, "roll2": {Then: ProbeOutcome{Class: "ok"}}}}
		w := &World{t: t, plan: plan, rec: rec, dir: dir}
		w.setup(scn)
		w.rec.Emit("reset", KV{"family": "rolloutfn", "urgent": true, "seed": seed, "note": ""})

		var cookies []rolloutCookie
		letters := "abcdefghijklmnopqrstuvwxyzABCDEFGHIJKLMNOPQRSTUVWXYZ0123456789-_.~!#$%&'()*+/:<=>?@[]^`{|}"
		for i := 0; i < nSample; i++ {
			n := 1 + rng.Intn(24)
			b := make([]byte, n)
			for j := range b {
				b[j] = letters[rng.Intn(len(letters))]
			}
			v := string(b)
			cookies = append(cookies, rolloutCookie{id: fmt.Sprintf("s%d", i), lines: [][]string{{"kamal-rollout=" + v}}, value: v, sample: true})
		}
		for i, v := range extremeValues(rng, extremeTries) {
			cookies = append(cookies, rolloutCookie{id: fmt.Sprintf("x%d", i), lines: [][]string{{"kamal-rollout=" + v}}, value: v})
		}
		// long values: hashing them takes microseconds, so concurrent decisions overlap inside it
		for i := 0; i < 12; i++ {
			b := make([]byte, 2500+rng.Intn(1500))
			for j := range b {
				b[j] = letters[rng.Intn(62)]
			}
			cookies = append(cookies, rolloutCookie{id: fmt.Sprintf("L%d", i), lines: [][]string{{"kamal-rollout=" + string(b)}}, value: string(b)})
		}
		// shapes of the Cookie header
		cookies = append(cookies,
			rolloutCookie{id: "m1", lines: [][]string{{"a=1", "kamal-rollout=multi1", "z=9"}}, value: "multi1"},
			rolloutCookie{id: "m2", lines: [][]string{{"session=abc"}, {"kamal-rollout=multi2"}}, value: "multi2"},
			rolloutCookie{id: "m3", lines: [][]string{{"broken", "=novalue", "kamal-rollout=multi3"}}, value: "multi3"},
			rolloutCookie{id: "m4", lines: [][]string{{"kamal-rollout=\"quoted\""}}, value: "quoted"},
			rolloutCookie{id: "vip", lines: [][]string{{"kamal-rollout=vip"}}, value: "vip"},
			rolloutCookie{id: "vip2", lines: [][]string{{"other=1"}, {"x=y", "kamal-rollout=vip"}}, value: "vip"},
			rolloutCookie{id: "none", lines: [][]string{{"session=abc"}}, value: ""},
			rolloutCookie{id: "nocookie", lines: nil, value: ""},
			rolloutCookie{id: "empty", lines: [][]string{{"kamal-rollout="}}, value: ""},
			rolloutCookie{id: "othername", lines: [][]string{{"kamal-rollout2=abc", "xkamal-rollout=abc"}}, value: ""},
		)

		send := func(c rolloutCookie) (usesRollout bool, ok bool) {
			req, _ := http.NewRequest("GET", "http://"+proxyHTTP+"/x", nil)
			req.Host = "a.test"
			req.Header.Set("X-Verif-Rid", "ro")
			req.Header.Set("X-Verif-Kind", "plain")
			for _, line := range c.lines {
				s := ""
				for i, p := range line {
					if i > 0 {
						s += "; "
					}
					s += p
				}
				req.Header.Add("Cookie", s)
			}
			resp, err := w.clientTr.RoundTrip(req)
			if err != nil {
				return false, false
			}
			io.Copy(io.Discard, resp.Body)
			resp.Body.Close()
			o := resp.Header.Get("X-Verif-Origin")
			if resp.StatusCode != 200 || o == "" {
				return false, false
			}
			return o == "roll1" || o == "roll2", true
		}
		observe := func(active bool, why string, pct int, allowVip bool, only func(rolloutCookie) bool) {
			for _, c := range cookies {
				if only != nil && !only(c) {
					continue
				}
				uses, ok := send(c)
				if !ok {
					w.rec.Emit("harness_error", KV{"what": "rollout probe failed for " + c.id})
					continue
				}
				w.rec.Emit("rollout_obs", KV{"v": c.id, "pct": pct, "allow": allowVip && c.value == "vip", "present": c.value != "", "uses": uses,
					"active": active, "why": why, "sample": c.sample})
			}
		}
		few := func(c rolloutCookie) bool { return !c.sample || c.id == "s0" || c.id == "s1" }

		w.execCmd(Cmd{ID: "c1", Kind: "deploy", Svc: "A", Hosts: []string{"a.test"}, Targets: []string{"act1", "act2"}, DeployTimeoutMs: 2000, DrainTimeoutMs: 500})
		observe(false, "no rollout targets", 100, false, few)
		w.execCmd(Cmd{ID: "c2", Kind: "rollout_set", Svc: "A", Pct: 100}) // rejected: no rollout targets yet
		observe(false, "split rejected", 100, false, few)
		w.execCmd(Cmd{ID: "c3", Kind: "rollout_deploy", Svc: "A", Targets: []string{"roll1", "roll2"}, DeployTimeoutMs: 2000, DrainTimeoutMs: 500})
		observe(false, "no split set", 100, false, few)
		// every percentage, in a shuffled order (the decision must not depend on the order of settings)
		order := rng.Perm(101)
		for k, pct := range order {
			w.execCmd(Cmd{ID: fmt.Sprintf("p%d", k), Kind: "rollout_set", Svc: "A", Pct: pct})
			observe(true, "", pct, false, nil)
		}
		// the same values sent by several clients at once: the decision is a function of the value, not of what else
		// the proxy is deciding at that moment
		for round, pct := range []int{50, 13, 87} {
			w.execCmd(Cmd{ID: fmt.Sprintf("q%d", round), Kind: "rollout_set", Svc: "A", Pct: pct})
			var mu sync.Mutex
			var wg sync.WaitGroup
			type obs struct {
				c    rolloutCookie
				uses bool
				ok   bool
			}
			var got []obs
			var conc []rolloutCookie
			for _, c := range cookies {
				if strings.HasPrefix(c.id, "L") || (c.sample && len(conc) < 24) {
					conc = append(conc, c)
				}
			}
			for g := 0; g < 8; g++ {
				wg.Add(1)
				go func(g int) {
					defer wg.Done()
					for i := range conc {
						c := conc[(i+g*5)%len(conc)]
						uses, ok := send(c)
						mu.Lock()
						got = append(got, obs{c, uses, ok})
						mu.Unlock()
					}
				}(g)
			}
			wg.Wait()
			for _, o := range got {
				if !o.ok {
					w.rec.Emit("harness_error", KV{"what": "concurrent rollout probe failed for " + o.c.id})
					continue
				}
				w.rec.Emit("rollout_obs", KV{"v": o.c.id, "pct": pct, "allow": false, "present": o.c.value != "", "uses": o.uses,
					"active": true, "why": "", "sample": false})
			}
			observe(true, "", pct, false, few)
			// ... and the decision itself, asked of the installed service a few hundred thousand times from 8 goroutines
			// (no network in between): every answer must be the one established above for that value
			svc := server.VerifRouterService(w.router, "A")
			if svc != nil {
				var hg sync.WaitGroup
				for g := 0; g < 8; g++ {
					hg.Add(1)
					go func(g int) {
						defer hg.Done()
						reqs := make([]*http.Request, len(conc))
						for i, c := range conc {
							r, _ := http.NewRequest("GET", "http://a.test/x", nil)
							for _, line := range c.lines {
								r.Header.Add("Cookie", strings.Join(line, "; "))
							}
							reqs[i] = r
						}
						first := make([]bool, len(conc))
						for i, r := range reqs {
							first[i] = server.VerifUsesRolloutGroup(svc, r)
						}
						for n := 0; n < 30000; n++ {
							i := (n*7 + g) % len(conc)
							if u := server.VerifUsesRolloutGroup(svc, reqs[i]); u != first[i] || n%6000 == 0 {
								w.rec.Emit("rollout_obs", KV{"v": conc[i].id, "pct": pct, "allow": false, "present": conc[i].value != "", "uses": u,
									"active": true, "why": "", "sample": false})
								w.rec.Emit("rollout_obs", KV{"v": conc[i].id, "pct": pct, "allow": false, "present": conc[i].value != "", "uses": first[i],
									"active": true, "why": "", "sample": false})
							}
						}
					}(g)
				}
				hg.Wait()
			}
		}
		for _, pct := range []int{0, 37, 100} {
			w.execCmd(Cmd{ID: fmt.Sprintf("a%d", pct), Kind: "rollout_set", Svc: "A", Pct: pct, Allow: []string{"vip", "other"}})
			observe(true, "", pct, true, few)
		}
		w.rec.Emit("rollout_end", KV{"n": nSample})
		w.execCmd(Cmd{ID: "c4", Kind: "rollout_stop", Svc: "A"})
		observe(false, "after rollout stop", 100, false, few)
		time.Sleep(2 * time.Second)
		synctest.Wait()
		w.rec.Emit("end", nil)
		w.teardown()
	})
}
