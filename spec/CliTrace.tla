------------------------------ MODULE CliTrace ------------------------------
EXTENDS TLC, Json, IOUtils, Integers, Sequences, FiniteSets
Log == ndJsonDeserialize(IOEnv.VERIF_TRACE)

\* (functions of Cli.tla, repeated: that module also declares the variables of its small model)
Opt(flag, prefixed, bare, default) ==
  IF flag # "absent" THEN flag
  ELSE IF prefixed # "absent" THEN (IF prefixed = "bad" THEN default ELSE prefixed)
  ELSE IF bare # "absent" THEN (IF bare = "bad" THEN default ELSE bare)
  ELSE default
DeployErrors(f) ==
  (IF f.maxReq /\ ~f.bufReq THEN {"max-request-body"} ELSE {})
  \cup (IF f.maxResp /\ ~f.bufResp THEN {"max-response-body"} ELSE {})
  \cup (IF f.tls /\ ~f.host THEN {"tls-host"} ELSE {})
  \cup (IF f.tls /\ f.host /\ ~f.rootPath THEN {"tls-root"} ELSE {})
Exit(outcome) == IF outcome = "ok" THEN 0 ELSE 1

VARIABLES l, viol, cov
vars == <<l, viol, cov>>
Init == l = 1 /\ viol = {} /\ cov = <<>> /\ TLCSet(1, 0)
If(b, S) == IF b /\ Cardinality(viol) < 100 THEN S ELSE {}
V(inv, subj, detail, e) == [inv |-> inv, subj |-> subj, sig |-> "", detail |-> ToString(detail), scn |-> 0, line |-> l]
Bump(S) == [i \in DOMAIN cov \cup S |-> (IF i \in DOMAIN cov THEN cov[i] ELSE 0) + (IF i \in S THEN 1 ELSE 0)]

Step ==
  /\ l <= Len(Log)
  /\ LET e == Log[l] IN
     CASE e.ev = "cli_opt" ->
            LET want == Opt(e.flag, e.prefixed, e.bare, "default") IN
            /\ viol' = viol \cup If(e.observed # want, {V("C20_opt", e.opt, <<"flag", e.flag, "prefixed", e.prefixed, "bare", e.bare, "observed", e.observed, "expected", want>>, e)})
            /\ cov' = Bump({"C20_opt"})
       [] e.ev = "cli_deploy" ->
            LET errs == DeployErrors(e.f) IN
            /\ viol' = viol
               \cup If((errs = {}) # e.contacted, {V("C20_validate", e.id, <<"flags", e.f, "contacted the proxy", e.contacted, "must be refused for", errs>>, e)})
               \cup If(errs # {} /\ e.exit = 0, {V("C20_validate", e.id, <<"refused deploy exited 0", e.f>>, e)})
            /\ cov' = Bump({"C20_validate"})
       [] e.ev = "cli_exit" ->
            /\ viol' = viol \cup If((e.exit = 0) # (Exit(e.outcome) = 0), {V("C20_exit", e.id, <<"command", e.cmd, "proxy outcome", e.outcome, "exit status", e.exit>>, e)})
            /\ cov' = Bump({"C20_exit"})
       [] e.ev = "cli_list" ->
            /\ viol' = viol \cup If(e.rows # e.expected, {V("C20_list", e.id, <<"list printed", e.rows, "deployed", e.expected>>, e)})
            /\ cov' = Bump({"C20_list"})
       [] e.ev = "harness_error" -> viol' = viol \cup {V("HARNESS", "", e.what, e)} /\ UNCHANGED cov
       [] OTHER -> UNCHANGED <<viol, cov>>
  /\ l' = l + 1
  /\ TLCSet(1, l)
Eof ==
  /\ l = Len(Log) + 1
  /\ JsonSerialize(IOEnv.VERIF_OUT, [lines |-> Len(Log), violations |-> viol, coverage |-> cov])
  /\ TLCSet(1, l)
  /\ l' = l + 1
  /\ UNCHANGED <<viol, cov>>
Next == Step \/ Eof
Spec == Init /\ [][Next]_vars
Accepted == TLCGet(1) = Len(Log) + 1
=============================================================================
