package harness

import (
	"bufio"
	"bytes"
	"context"
	"crypto/tls"
	"encoding/json"
	"errors"
	"fmt"
	"html"
	"io"
	"log"
	"log/slog"
	"math/rand"
	"net"
	"net/http"
	"os"
	"path/filepath"
	"regexp"
	"runtime"
	"runtime/debug"
	"sort"
	"strconv"
	"strings"
	"sync"
	"sync/atomic"
	"testing"
	"testing/synctest"
	"time"

	"github.com/basecamp/kamal-proxy/internal/server"
)

const (
	proxyHTTP  = "proxy"
	proxyHTTPS = "proxy:443"
)

type ctxKey string

// World is one scenario: the real router and middleware chain on an in-memory
// network, fake targets, clients and operator lanes, under a controller.
type World struct {
	t    *testing.T
	plan *Plan
	rec  *Recorder
	net  *MemNet
	ctl  *Controller
	rng  *rand.Rand

	dir       string
	statePath string
	router    *server.Router
	handler   http.Handler
	front     []*http.Server
	clientTr  *http.Transport
	probeTr   *http.Transport
	oldProbe  http.RoundTripper
	logBuf    *lockedBuffer

	mu             sync.Mutex
	targets        map[string]*FakeTarget
	trs            []*http.Transport
	ids            map[any]int
	idn            map[string]int
	hcs            map[*server.HealthCheck]bool
	inflightRid    map[any]string
	autoAfterBurst bool
	barrierPts     map[string]bool
	burstGen       atomic.Int64
	lined          atomic.Int64
	readSpun       atomic.Bool
	stop           chan struct{}
	wg             sync.WaitGroup
	parkSet        map[string]bool
	lanesLeft      int
	reqsOpen       int
	tgtOf          map[*server.Target]string
	cmdDone        map[string]chan struct{}
	extra          KV
	hmu            sync.RWMutex
	echo           echoStore
	nclaims        int
	closers        []func()
	quiet          atomic.Bool
}

// claims: requests currently registered at targets (claims minus ends), from the hooks.
func (w *World) claims() int {
	w.mu.Lock()
	defer w.mu.Unlock()
	return w.nclaims
}

func (w *World) setHandler(h http.Handler) {
	w.hmu.Lock()
	w.handler = h
	w.hmu.Unlock()
}

func (w *World) getHandler() http.Handler {
	w.hmu.RLock()
	defer w.hmu.RUnlock()
	return w.handler
}

type lockedBuffer struct {
	mu sync.Mutex
	b  bytes.Buffer
}

func (l *lockedBuffer) Write(p []byte) (int, error) {
	l.mu.Lock()
	defer l.mu.Unlock()
	return l.b.Write(p)
}

func (l *lockedBuffer) Take() []byte {
	l.mu.Lock()
	defer l.mu.Unlock()
	out := append([]byte(nil), l.b.Bytes()...)
	l.b.Reset()
	return out
}

// RunScenario executes one plan inside a fresh synctest bubble and records its
// trace. It returns the decisions taken (for replay).
// The state-file sampler (C12): a goroutine OUTSIDE the bubble that keeps reading the state file of the running
// scenario on the real clock. Each read is an instant at which the process could have been killed; what it returns is
// what the next start would restore. A sample is recorded only when its content differs from the previous one and no
// event was written while it was taken.
type pollInfo struct {
	path string
	scn  int
	rec  *Recorder
}

var pollTarget atomic.Pointer[pollInfo]

func StartStateFileSampler(stop <-chan struct{}) {
	go func() {
		var last string
		lastScn := -1
		for {
			select {
			case <-stop:
				return
			default:
			}
			pi := pollTarget.Load()
			if pi == nil {
				spinFor(50)
				continue
			}
			seq, scn := pi.rec.SeqNow()
			if scn != pi.scn {
				spinFor(20)
				continue
			}
			cfg, ok := fileCfgAt(pi.path)
			key := fmt.Sprint(ok) + cfg
			if pollTarget.Load() != pi {
				continue // the scenario is over: its teardown rewrites the file
			}
			if scn != lastScn || key != last {
				if pi.rec.EmitIfSeq(seq, scn, "file_obs", KV{"c": "", "point": "poll", "ok": ok, "cfg": cfg}) {
					last, lastScn = key, scn
				}
			}
			spinFor(15)
		}
	}()
}

func RunScenario(t *testing.T, scn int, plan *Plan, rec *Recorder, dir string) (decisions []string, hits, misses int) {
	synctest.Test(t, func(t *testing.T) {
		w := &World{t: t, plan: plan, rec: rec, dir: dir}
		w.run(scn)
		decisions = w.ctl.Decisions
		hits, misses = w.ctl.Hits, w.ctl.Misses
	})
	return
}

func (w *World) id(kind string, p any) int {
	w.mu.Lock()
	defer w.mu.Unlock()
	if v, ok := w.ids[p]; ok {
		return v
	}
	w.idn[kind]++
	w.ids[p] = w.idn[kind]
	return w.idn[kind]
}

func (w *World) setup(scn int) {
	plan := w.plan
	w.rng = rand.New(rand.NewSource(plan.Seed))
	w.rec.Begin(scn, time.Now())
	w.net = NewMemNet()
	w.ctl = NewController(plan.Sched == "free")
	w.targets = map[string]*FakeTarget{}
	w.ids = map[any]int{}
	w.idn = map[string]int{}
	w.hcs = map[*server.HealthCheck]bool{}
	w.inflightRid = map[any]string{}
	w.tgtOf = map[*server.Target]string{}
	w.stop = make(chan struct{})
	w.cmdDone = map[string]chan struct{}{}
	for _, lane := range plan.Lanes {
		for _, c := range lane {
			w.cmdDone[c.ID] = make(chan struct{})
		}
	}
	w.parkSet = map[string]bool{}
	for _, p := range plan.ParkPoints {
		w.parkSet[p] = true
	}

	w.logBuf = &lockedBuffer{}
	slog.SetDefault(slog.New(slog.NewJSONHandler(w.logBuf, &slog.HandlerOptions{Level: slog.LevelInfo})))

	w.statePath = filepath.Join(w.dir, fmt.Sprintf("state-%d.json", scn))
	os.Remove(w.statePath)
	w.router = server.NewRouter(w.statePath)
	if plan.SnapObs {
		pollTarget.Store(&pollInfo{path: w.statePath, scn: scn, rec: w.rec})
	}
	cfg := &server.Config{Bind: "127.0.0.1", HttpPort: 80, HttpsPort: 443, AlternateConfigDir: w.dir}
	w.handler = server.VerifBuildHandler(server.NewServer(cfg, w.router))

	// hooks: installed once for the process; they dispatch to the world that is current
	installHooks()
	currentWorld.Store(w)
	w.net.DialHook = w.dialHook

	w.probeTr = &http.Transport{DialContext: w.net.Dialer("probe"), DisableKeepAlives: true}
	w.oldProbe = http.DefaultClient.Transport
	http.DefaultClient.Transport = w.probeTr
	w.clientTr = &http.Transport{DialContext: w.net.Dialer("client"), DisableKeepAlives: true}

	// front servers
	for _, addr := range []string{proxyHTTP, proxyHTTPS} {
		ln, err := w.net.Listen(addr)
		if err != nil {
			panic(err)
		}
		isTLS := addr == proxyHTTPS
		srv := &http.Server{ErrorLog: log.New(&panicLogWriter{w: w}, "", 0), Handler: http.HandlerFunc(func(rw http.ResponseWriter, r *http.Request) {
			if isTLS {
				r.TLS = &tls.ConnectionState{HandshakeComplete: true, ServerName: r.Host}
			}
			w.getHandler().ServeHTTP(rw, r)
		})}
		w.front = append(w.front, srv)
		go srv.Serve(ln)
	}

	names := make([]string, 0, len(plan.Targets))
	for name := range plan.Targets {
		names = append(names, name)
	}
	sort.Strings(names)
	for _, name := range names {
		w.targets[name] = newFakeTarget(w, name, plan.Targets[name])
	}
}

func (w *World) teardown() {
	// Everything that could still block must be released before the bubble ends.
	w.ctl.SetAuto(true)
	close(w.stop)
	func() {
		defer func() { recover() }()
		for name := range w.router.ListActiveServices() {
			func() {
				defer func() { recover() }()
				w.router.RemoveService(name)
			}()
		}
	}()
	w.mu.Lock()
	hcs := make([]*server.HealthCheck, 0, len(w.hcs))
	for hc, open := range w.hcs {
		if open {
			hcs = append(hcs, hc)
		}
	}
	trs := append([]*http.Transport(nil), w.trs...)
	w.mu.Unlock()
	w.quiet.Store(true) // from here on hooks only pass through
	for _, hc := range hcs {
		hc.Close()
	}
	for _, srv := range w.front {
		srv.Close()
	}
	for _, ft := range w.targets {
		ft.close()
	}
	for _, f := range w.closers {
		f()
	}
	for _, tr := range trs {
		tr.CloseIdleConnections()
	}
	w.probeTr.CloseIdleConnections()
	w.clientTr.CloseIdleConnections()
	http.DefaultClient.Transport = w.oldProbe
	// let timers (max-pause, response timeouts) run out so no goroutine is left
	time.Sleep(2 * time.Minute)
	synctest.Wait()
	w.wg.Wait()
}

func (w *World) run(scn int) {
	w.setup(scn)
	plan := w.plan
	w.rec.Emit("reset", KV{"family": plan.Family, "urgent": plan.Urgent, "seed": plan.Seed, "note": plan.Note,
		"sched": plan.Sched, "burst": plan.Burst, "lanes": len(plan.Lanes), "spin": plan.SnapSpin > 0})

	w.lanesLeft = len(plan.Lanes) + len(plan.Clients)
	for i, lane := range plan.Lanes {
		w.wg.Add(1)
		go w.runLane(i, lane)
	}
	for i, lane := range plan.Clients {
		w.wg.Add(1)
		go w.runClientLane(i, lane)
	}

	var sched Scheduler
	maxSteps := plan.MaxSteps
	if maxSteps == 0 {
		maxSteps = 2000
	}
	switch plan.Sched {
	case "pct":
		d := plan.Depth
		if d == 0 {
			d = 3
		}
		sched = newPCT(w.rng, d, 200)
	case "freeze":
		sched = newFreeze(w.rng)
	case "barrier":
		pts := map[string]bool{}
		for _, x := range plan.Barrier {
			pts[x] = true
		}
		w.barrierPts = pts
		bs := &barrierSched{rng: w.rng, points: pts, n: plan.BarrierN, after: plan.BarrierAfterMs, now: w.rec.Now}
		if plan.BarrierFree {
			bs.fired = func() { w.autoAfterBurst = true }
		}
		sched = bs
	case "guided":
		sched = &guidedSched{list: plan.Decisions, ctl: w.ctl, rng: w.rng}
	case "replay":
		sched = &replaySched{list: plan.Decisions, fallback: &randomSched{w.rng}, ctl: w.ctl}
	default:
		sched = &randomSched{w.rng}
	}
	quantum := time.Duration(plan.QuantumMs) * time.Millisecond
	if quantum == 0 {
		quantum = 100 * time.Millisecond
	}

	if plan.Sched != "free" {
		idle := 0
		for step := 0; step < maxSteps; step++ {
			synctest.Wait()
			select {
			case <-w.ctl.wake:
			default:
			}
			ps := w.ctl.snapshot()
			w.mu.Lock()
			done := w.lanesLeft == 0 && w.reqsOpen == 0
			w.mu.Unlock()
			anyInternal := false
			for _, p := range ps {
				if p.internal {
					anyInternal = true
				}
			}
			if done && !anyInternal {
				break
			}
			opts := make([]string, 0, len(ps)+1)
			internal := make([]bool, 0, len(ps)+1)
			for _, p := range ps {
				opts = append(opts, p.key())
				internal = append(internal, p.internal)
			}
			if !(plan.Urgent && anyInternal) {
				opts = append(opts, "advance")
				internal = append(internal, false)
			}
			nInternal := 0
			for _, b := range internal {
				if b {
					nInternal++
				}
			}
			if plan.Burst && len(ps) >= 2 && nInternal >= 1 && plan.Sched != "replay" && plan.Sched != "guided" && w.rng.Intn(max(1, dflt(plan.BurstEvery, 6))) == 0 {
				// release every parked proxy goroutine at once: they race for real between two hooks
				opts = append(opts, "burst")
				internal = append(internal, false)
				w.ctl.Decisions = append(w.ctl.Decisions, "burst")
				w.rec.Emit("x_burst", nil)
				for _, p := range ps {
					w.ctl.release(p)
				}
				continue
			}
			i := sched.Pick(step, opts, internal)
			if i < 0 { // replayed burst
				opts = append(opts, "burst")
				i = len(opts) - 1
			}
			w.ctl.Decisions = append(w.ctl.Decisions, opts[i])
			if opts[i] == "burst" {
				w.rec.Emit("x_burst", nil)
				w.lined.Store(0)
				w.burstGen.Add(1)
				for _, p := range ps {
					w.ctl.release(p)
				}
				if w.autoAfterBurst {
					w.ctl.SetAuto(true) // nothing parks any more: the rest of the scenario runs on the real scheduler
				}
			} else if opts[i] == "advance" {
				select {
				case <-w.ctl.wake:
				case <-time.After(quantum):
				}
				if len(ps) == 0 {
					idle++
				}
				if idle > 3000 {
					break
				}
			} else {
				idle = 0
				if ps[i].internal {
					w.rec.Emit("x_rel", KV{"point": ps[i].point, "actor": ps[i].actor})
				}
				w.ctl.release(ps[i])
			}
		}
	}

	// settle: everything runs free, time passes
	w.rec.Emit("x_settle", nil)
	w.ctl.SetAuto(true)
	settle := time.Duration(plan.SettleMs) * time.Millisecond
	if settle == 0 {
		settle = 8 * time.Second
	}
	time.Sleep(settle)
	synctest.Wait()
	if plan.Sched == "guided" {
		w.rec.Emit("guided", KV{"hits": w.ctl.Hits, "misses": w.ctl.Misses, "missed": nonNil(w.ctl.Missed)})
	}
	pollTarget.Store(nil)
	w.rec.Emit("end", nil)
	w.teardown()
}

// ---- hooks ----------------------------------------------------------------

func ridOf(r *http.Request) string {
	if r == nil {
		return ""
	}
	return r.Header.Get("X-Verif-Rid")
}

// targetName: "<name>#<k>" where k counts the Target instances created with
// that name (deterministic: instances of one name are created by successive
// commands, whereas a global counter would depend on goroutine timing).
func (w *World) targetName(t *server.Target) string {
	name := server.VerifTargetName(t)
	return name + "#" + strconv.Itoa(w.id("target:"+name, t))
}

var (
	hooksOnce    sync.Once
	currentWorld atomic.Pointer[World]
)

func installHooks() {
	hooksOnce.Do(func() {
		server.VerifYield = func(point string, objs ...any) {
			if w := currentWorld.Load(); w != nil {
				w.onYield(point, objs...)
			}
		}
		server.VerifEmit = func(event string, objs ...any) {
			if w := currentWorld.Load(); w != nil && !w.quiet.Load() {
				w.onEmit(event, objs...)
			}
		}
		server.VerifTransport = func(t *server.Target, tr *http.Transport) {
			if w := currentWorld.Load(); w != nil {
				tr.DialContext = w.net.Dialer("req")
				w.mu.Lock()
				w.trs = append(w.trs, tr)
				w.mu.Unlock()
			}
		}
	})
}

func (w *World) onYield(point string, objs ...any) {
	actor := ""
	kv := KV{}
	switch point {
	case "routed":
		req := objs[0].(*http.Request)
		rid := ridOf(req)
		if rid == "" {
			return // not one of ours (e.g. a probe hitting the proxy)
		}
		actor = "r:" + rid
		w.ctl.BindGoroutine(actor)
		kv["r"] = rid
		if svc, _ := objs[1].(*server.Service); svc != nil {
			kv["ver"] = w.id("svcver", svc)
			kv["svc"] = server.VerifServiceName(svc)
		} else {
			kv["ver"] = 0
		}
	case "gate_passed", "pre_claim", "pre_send":
		req := objs[0].(*http.Request)
		rid := ridOf(req)
		if rid == "" {
			return
		}
		actor = "r:" + rid
		kv["r"] = rid
		if lb, ok := objs[1].(*server.LoadBalancer); ok {
			kv["lb"] = w.id("lb", lb)
		}
		if svc, ok := objs[1].(*server.Service); ok {
			kv["ver"] = w.id("svcver", svc)
		}
		if tg, ok := objs[1].(*server.Target); ok {
			kv["tg"] = server.VerifTargetName(tg)
		}
	case "wait_snapshot", "wait_released":
		actor = w.ctl.ActorOfGoroutine()
		if actor == "" {
			return
		}
		kv["r"] = strings.TrimPrefix(actor, "r:")
		if len(objs) > 1 {
			kv["state"] = objs[1]
		}
	case "hc_result", "hc_applied", "hc_notified":
		t := objs[0].(*server.Target)
		actor = "hc:" + w.targetName(t)
		kv["tg"] = server.VerifTargetName(t)
		kv["tid"] = w.id("target:"+server.VerifTargetName(t), t)
		kv["ok"] = objs[1]
	case "dep_started", "dep_healthy", "dep_pre_install", "dep_installed", "dep_drained":
		actor = w.ctl.ActorOfGoroutine()
		kv["c"] = strings.TrimPrefix(actor, "c:")
		kv["ver"] = w.id("svcver", objs[0])
		kv["lb"] = w.id("lb", objs[1])
	case "paused_pre_drain", "snap_begin", "snap_listed", "snap_created", "snap_written", "remove_start":
		actor = w.ctl.ActorOfGoroutine()
		if actor == "" {
			return
		}
		kv["c"] = strings.TrimPrefix(actor, "c:")
		if strings.HasPrefix(point, "snap_") && !w.plan.SnapObs && point != "snap_begin" {
			// inside the snapshot write a lock is held: never park there
			w.rec.Emit("y_"+point, kv)
			return
		}
		if strings.HasPrefix(point, "snap_") && w.plan.SnapObs {
			// a crash point of the snapshot write: what is on disk right now?
			cfg, ok := w.fileCfg()
			w.rec.Emit("mem_obs", KV{"c": kv["c"], "cfg": w.memCfg()})
			w.rec.Emit("file_obs", KV{"c": kv["c"], "point": point, "ok": ok, "cfg": cfg})
			if w.plan.SnapSpin > 0 && (point == "snap_listed" || point == "snap_created") {
				// stay in this step for a little real time, so that overlapping commands run past it in parallel
				t0 := time.Now()
				_ = t0
				spinFor(w.plan.SnapSpin)
			}
			if point != "snap_begin" || w.plan.SnapSpin > 0 {
				w.rec.Emit("y_"+point, kv)
				return // never park inside the snapshot write (a lock may be held there)
			}
		}
	case "wait_healthy":
		t := objs[0].(*server.Target)
		actor = "wh:" + w.targetName(t)
		kv["tg"] = server.VerifTargetName(t)
		kv["tid"] = w.id("target:"+server.VerifTargetName(t), t)
	case "drain_start", "drain_marked", "drain_deadline":
		t := objs[0].(*server.Target)
		actor = "dr:" + w.targetName(t)
		kv["tg"] = server.VerifTargetName(t)
		kv["tid"] = w.id("target:"+server.VerifTargetName(t), t)
	default:
		return
	}
	if actor == "" {
		return
	}
	w.rec.Emit("y_"+point, kv)
	if len(w.parkSet) > 0 && !w.parkSet[point] {
		return
	}
	w.ctl.Park(point, actor, true)
	if w.barrierPts != nil && (w.barrierPts[point] || w.barrierPts[point+"@"+actor]) && w.burstGen.Load() > 0 {
		// released by a barrier burst: line the contenders up on the real clock, so that the code after the hook
		// starts within nanoseconds on all of them
		gen := w.burstGen.Load()
		w.lined.Add(1)
		t0 := rtNow()
		for w.lined.Load() < int64(w.plan.BarrierN) && w.burstGen.Load() == gen && rtNow()-t0 < 200000 {
		}
		if d := w.plan.BarrierStaggerNs[point+"@"+actor]; d > 0 {
			// this contender starts a little after the others (scans the alignments of two short critical sections)
			t1 := rtNow()
			for rtNow()-t1 < int64(d) {
			}
		}
	}
}

func (w *World) onEmit(event string, objs ...any) {
	if event == "state_read" {
		// Not recorded. The rotation is rebuilt by reading every target's state one after the other; after a barrier burst
		// the first such read of a chosen target is held back for a little real time, so that a concurrent state change and
		// rebuild by another probe loop fits between this loop's reads (harmless when the reads are made under lb.lock).
		if len(w.plan.ReadSpin) == 0 || w.burstGen.Load() == 0 {
			return
		}
		if us := w.plan.ReadSpin[server.VerifTargetName(objs[0].(*server.Target))]; us > 0 && w.readSpun.CompareAndSwap(false, true) {
			spinFor(us)
		}
		return
	}
	kv := KV{}
	switch event {
	case "claim", "claim_refused", "end_inflight":
		req := objs[0].(*http.Request)
		w.mu.Lock()
		if event == "claim" {
			w.nclaims++
		} else if event == "end_inflight" {
			w.nclaims--
		}
		w.mu.Unlock()
		rid := ridOf(req)
		if rid == "" {
			return
		}
		t := objs[1].(*server.Target)
		kv["r"] = rid
		kv["tg"] = server.VerifTargetName(t)
		kv["tid"] = w.id("target:"+server.VerifTargetName(t), t)
		if event == "claim" && len(objs) > 2 {
			w.mu.Lock()
			w.inflightRid[objs[2]] = rid
			w.mu.Unlock()
		}
	case "hijacked":
		w.mu.Lock()
		rid := w.inflightRid[objs[0]]
		w.mu.Unlock()
		if rid == "" {
			return
		}
		kv["r"] = rid
	case "drain_snapshot":
		t := objs[0].(*server.Target)
		kv["tg"] = server.VerifTargetName(t)
		kv["tid"] = w.id("target:"+server.VerifTargetName(t), t)
		rids := []string{}
		for _, req := range server.VerifInflightRequests(objs[1]) {
			if rid := ridOf(req); rid != "" {
				rids = append(rids, rid)
			}
		}
		sort.Strings(rids)
		kv["rs"] = rids
	case "claim_none":
		req := objs[0].(*http.Request)
		rid := ridOf(req)
		if rid == "" {
			return
		}
		kv["r"] = rid
		kv["lb"] = w.id("lb", objs[1])
	case "rotation":
		lb := objs[0].(*server.LoadBalancer)
		kv["lb"] = w.id("lb", lb)
		kv["healthy"] = server.VerifRotationLocked(lb)
	case "hc_apply":
		t := objs[0].(*server.Target)
		kv["tg"] = server.VerifTargetName(t)
		kv["tid"] = w.id("target:"+server.VerifTargetName(t), t)
		kv["ok"] = objs[1]
		kv["state"] = objs[2]
	case "target_state":
		t := objs[0].(*server.Target)
		kv["tg"] = server.VerifTargetName(t)
		kv["tid"] = w.id("target:"+server.VerifTargetName(t), t)
		kv["state"] = objs[1]
		kv["was"] = objs[2]
	case "install", "install_conflict", "remove":
		s := objs[0].(*server.Service)
		kv["svc"] = server.VerifServiceName(s)
		kv["ver"] = w.id("svcver", s)
		if a := w.ctl.ActorOfGoroutine(); a != "" {
			kv["c"] = strings.TrimPrefix(a, "c:")
		}
	case "update_lb", "dep_new_lb":
		s := objs[0].(*server.Service)
		kv["svc"] = server.VerifServiceName(s)
		kv["ver"] = w.id("svcver", s)
		kv["lb"] = w.id("lb", objs[1])
		kv["slot"] = objs[2]
		if a := w.ctl.ActorOfGoroutine(); a != "" {
			kv["c"] = strings.TrimPrefix(a, "c:")
		}
	case "not_found":
		kv["svc"] = objs[0]
		if a := w.ctl.ActorOfGoroutine(); a != "" {
			kv["c"] = strings.TrimPrefix(a, "c:")
		}
	case "rollout_split", "rollout_split_refused":
		sv := objs[0].(*server.Service)
		kv["svc"] = server.VerifServiceName(sv)
		kv["ver"] = w.id("svcver", sv)
		if len(objs) > 1 {
			kv["on"] = objs[1]
		}
		if a := w.ctl.ActorOfGoroutine(); a != "" {
			kv["c"] = strings.TrimPrefix(a, "c:")
		}
	case "pause_state":
		kv["pc"] = w.id("pc", objs[0])
		kv["state"] = objs[1]
	case "buffer_write":
		b := objs[0].(*server.Buffer)
		maxBytes, maxMem, mem, disk, over, _ := server.VerifBufferStats(b)
		kv["b"] = w.id("buffer", b)
		kv["n"] = objs[1]
		kv["max_bytes"], kv["max_mem"], kv["mem"], kv["disk"], kv["over"] = maxBytes, maxMem, mem, disk, over
		w.rec.Emit("bufw", kv)
		return
	case "buffer_close":
		b := objs[0].(*server.Buffer)
		_, _, mem, disk, _, spill := server.VerifBufferStats(b)
		_, statErr := os.Stat(spill)
		w.rec.Emit("bufc", KV{"b": w.id("buffer", b), "mem": mem, "disk": disk, "spill": spill, "gone": spill == "" || statErr != nil})
		return
	case "hc_new":
		hc := objs[0].(*server.HealthCheck)
		w.mu.Lock()
		w.hcs[hc] = true
		w.mu.Unlock()
		kv["hc"] = w.id("hc", hc)
		kv["tg"] = server.VerifHealthCheckEndpoint(hc)
	case "hc_close":
		hc := objs[0].(*server.HealthCheck)
		w.mu.Lock()
		w.hcs[hc] = false
		w.mu.Unlock()
		kv["hc"] = w.id("hc", hc)
		kv["tg"] = server.VerifHealthCheckEndpoint(hc)
	default:
		return
	}
	w.rec.Emit("e_"+event, kv)
}

// memCfg: the configuration in force, rendered the way the state file would describe it (same marshaller), canonical.
func (w *World) memCfg() string {
	list := w.router.ListActiveServices()
	names := make([]string, 0, len(list))
	for n := range list {
		names = append(names, n)
	}
	sort.Strings(names)
	arr := []any{}
	for _, n := range names {
		if s := server.VerifRouterService(w.router, n); s != nil {
			b, err := json.Marshal(s)
			if err != nil {
				continue
			}
			var v any
			json.Unmarshal(b, &v)
			arr = append(arr, v)
		}
	}
	b, _ := json.Marshal(arr)
	return string(b)
}

// fileCfg: what a proxy started now would read from the state file ("" = nothing to restore / undecodable).
func (w *World) fileCfg() (string, bool) { return fileCfgAt(w.statePath) }

func fileCfgAt(path string) (string, bool) {
	b, err := os.ReadFile(path)
	if err != nil {
		if os.IsNotExist(err) {
			return "[]", true
		}
		return "", false
	}
	var arr []map[string]any
	if err := json.Unmarshal(b, &arr); err != nil {
		return "", false
	}
	sort.Slice(arr, func(i, j int) bool { return fmt.Sprint(arr[i]["name"]) < fmt.Sprint(arr[j]["name"]) })
	out, _ := json.Marshal(arr)
	if arr == nil {
		return "[]", true
	}
	return string(out), true
}

func (w *World) dialHook(kind, addr string) error {
	if kind != "probe" {
		return nil
	}
	w.mu.Lock()
	ft := w.targets[addr]
	w.mu.Unlock()
	if ft == nil {
		return nil
	}
	return ft.onProbeDial()
}

// ---- operator ---------------------------------------------------------------

func ms(n int) time.Duration { return time.Duration(n) * time.Millisecond }

func (w *World) runLane(i int, lane []Cmd) {
	defer w.wg.Done()
	defer func() {
		w.mu.Lock()
		w.lanesLeft--
		w.mu.Unlock()
		w.ctl.Wake()
	}()
	actor := fmt.Sprintf("lane%d", i)
	for _, cmd := range lane {
		if !w.waitAfter(cmd.After) {
			return
		}
		if cmd.WaitMs > 0 {
			select {
			case <-time.After(ms(cmd.WaitMs)):
			case <-w.stop:
				return
			}
		}
		w.ctl.Park("op_next", actor, false)
		select {
		case <-w.stop:
			return
		default:
		}
		w.execCmd(cmd)
		w.ctl.Park("op_done", actor, false)
	}
}

func (w *World) waitAfter(id string) bool {
	if id == "" {
		return true
	}
	ch := w.cmdDone[id]
	if ch == nil {
		return true
	}
	select {
	case <-ch:
		return true
	case <-w.stop:
		return false
	}
}

func classifyErr(err error) string {
	switch {
	case err == nil:
		return "ok"
	case errors.Is(err, server.ErrorTargetFailedToBecomeHealthy):
		return "unhealthy"
	case errors.Is(err, server.ErrorHostInUse):
		return "host_in_use"
	case errors.Is(err, server.ErrorServiceNotFound):
		return "not_found"
	case errors.Is(err, server.ErrorInvalidHostPattern):
		return "invalid_target"
	case errors.Is(err, server.ErrorUnableToLoadCertificate):
		return "cert"
	case errors.Is(err, server.ErrorUnableToLoadErrorPages):
		return "error_pages"
	case errors.Is(err, server.ErrorAutomaticTLSDoesNotSupportWildcards):
		return "acme_wildcard"
	case errors.Is(err, server.ErrorRolloutTargetNotSet):
		return "rollout_not_set"
	}
	return "error:" + err.Error()
}

func (c Cmd) serviceOptions() server.ServiceOptions {
	return server.ServiceOptions{
		Hosts: c.Hosts, PathPrefixes: c.Paths,
		TLSEnabled: c.TLS, TLSRedirect: c.TLSRedirect,
		TLSCertificatePath: c.CertPath, TLSPrivateKeyPath: c.KeyPath,
		ErrorPagePath: c.ErrorPages, StripPrefix: c.StripPrefix,
	}
}

func dflt(v, d int) int {
	if v == 0 {
		return d
	}
	return v
}

func (c Cmd) targetOptions() server.TargetOptions {
	path := c.HCPath
	if path == "" {
		path = "/up"
	}
	return server.TargetOptions{
		HealthCheckConfig: server.HealthCheckConfig{
			Path:     path,
			Interval: ms(dflt(c.HCIntervalMs, 1000)),
			Timeout:  ms(dflt(c.HCTimeoutMs, 500)),
		},
		ResponseTimeout:     ms(dflt(c.RespTimeoutMs, 5000)),
		BufferRequests:      c.BufReq,
		BufferResponses:     c.BufResp,
		MaxMemoryBufferSize: c.MaxMem,
		MaxRequestBodySize:  c.MaxReqBody,
		MaxResponseBodySize: c.MaxRespBody,
		ForwardHeaders:      c.ForwardHdrs,
		LogRequestHeaders:   append([]string(nil), c.LogReq...),
		LogResponseHeaders:  append([]string(nil), c.LogResp...),
	}
}

// errorPages resolves the marker "@custom503" to a directory holding a 503 page of the service's own.
func (w *World) errorPages(p string) string {
	if p != "@custom503" {
		return p
	}
	d := filepath.Join(w.dir, "custom503")
	if _, err := os.Stat(d); err != nil {
		os.MkdirAll(d, 0o755)
		os.WriteFile(filepath.Join(d, "503.html"), []byte("<html>CUSTOM503[{{ .Message }}]MOTSUC</html>"), 0o644)
	}
	return d
}

func (w *World) execCmd(cmd Cmd) {
	actor := "c:" + cmd.ID
	w.ctl.BindGoroutine(actor)
	defer w.ctl.UnbindGoroutine()
	call := KV{"c": cmd.ID, "kind": cmd.Kind, "svc": cmd.Svc, "targets": nonNil(cmd.Targets),
		"dto": cmd.DeployTimeoutMs, "drto": cmd.DrainTimeoutMs, "max_pause": cmd.MaxPauseMs, "msg": cmd.Msg,
		"hosts": nonNil(cmd.Hosts), "paths": nonNil(cmd.Paths), "pct": cmd.Pct, "allow": nonNil(cmd.Allow),
		"hc_interval": dflt(cmd.HCIntervalMs, 1000), "hc_timeout": dflt(cmd.HCTimeoutMs, 500), "pages503": cmd.ErrorPages == "@custom503"}
	for k, v := range w.extra {
		call[k] = v
	}
	if w.plan.SnapObs {
		w.rec.Emit("mem_obs", KV{"c": cmd.ID, "cfg": w.memCfg()})
	}
	w.rec.Emit("cmd_call", call)
	res := ""
	var listing any
	func() {
		defer func() {
			if p := recover(); p != nil {
				res = fmt.Sprintf("panic:%v", p)
				w.rec.Emit("panic", KV{"c": cmd.ID, "what": fmt.Sprint(p), "stack": firstLines(string(debug.Stack()), 30)})
			}
		}()
		var err error
		switch cmd.Kind {
		case "deploy":
			so := cmd.serviceOptions()
			so.ErrorPagePath = w.errorPages(so.ErrorPagePath)
			err = w.router.DeployService(cmd.Svc, cmd.Targets, so, cmd.targetOptions(), ms(cmd.DeployTimeoutMs), ms(cmd.DrainTimeoutMs))
		case "rollout_deploy":
			err = w.router.SetRolloutTargets(cmd.Svc, cmd.Targets, ms(cmd.DeployTimeoutMs), ms(cmd.DrainTimeoutMs))
		case "rollout_set":
			err = w.router.SetRolloutSplit(cmd.Svc, cmd.Pct, cmd.Allow)
		case "rollout_stop":
			err = w.router.StopRollout(cmd.Svc)
		case "pause":
			err = w.router.PauseService(cmd.Svc, ms(cmd.DrainTimeoutMs), ms(cmd.MaxPauseMs))
		case "stop":
			err = w.router.StopService(cmd.Svc, ms(cmd.DrainTimeoutMs), cmd.Msg)
		case "resume":
			err = w.router.ResumeService(cmd.Svc)
		case "remove":
			err = w.router.RemoveService(cmd.Svc)
		case "list":
			listing = w.router.ListActiveServices()
		default:
			err = fmt.Errorf("harness: unknown command kind %q", cmd.Kind)
		}
		res = classifyErr(err)
	}()
	kv := KV{"c": cmd.ID, "res": res}
	if listing != nil {
		kv["list"] = listing
	}
	w.rec.Emit("cmd_ret", kv)
	if w.plan.Family == "own" || w.plan.Family == "duelown" {
		// what `list` shows right now: at every moment no host/path pair may appear under two services (C05)
		type ls struct {
			Name  string   `json:"name"`
			Hosts []string `json:"hosts"`
			Paths []string `json:"paths"`
		}
		var out []ls
		for name, d := range w.router.ListActiveServices() {
			hosts := strings.Split(d.Host, ",")
			if d.Host == "*" {
				hosts = []string{""}
			}
			out = append(out, ls{name, hosts, strings.Split(d.Path, ",")})
		}
		sort.Slice(out, func(i, j int) bool { return out[i].Name < out[j].Name })
		if out == nil {
			out = []ls{}
		}
		w.rec.Emit("list_obs", KV{"c": cmd.ID, "svcs": out})
	}
	if w.plan.Family == "own" {
		// which targets have a probe loop right now (for the design model of the service table, spec/Own.tla)
		w.mu.Lock()
		open := []string{}
		for hc, on := range w.hcs {
			if on {
				open = append(open, server.VerifHealthCheckEndpoint(hc))
			}
		}
		w.mu.Unlock()
		sort.Strings(open)
		w.rec.Emit("probing_obs", KV{"c": cmd.ID, "tgs": open})
	}
	if w.plan.SnapObs {
		cfg, ok := w.fileCfg()
		w.rec.Emit("mem_obs", KV{"c": cmd.ID, "cfg": w.memCfg()})
		w.rec.Emit("file_obs", KV{"c": cmd.ID, "point": "returned", "ok": ok, "cfg": cfg})
	}
	if ch := w.cmdDone[cmd.ID]; ch != nil {
		close(ch)
	}
}

func nonNil(s []string) []string {
	if s == nil {
		return []string{}
	}
	return s
}

func firstLines(s string, n int) string {
	lines := strings.Split(s, "\n")
	if len(lines) > n {
		lines = lines[:n]
	}
	return strings.Join(lines, "\n")
}

// ---- clients ------------------------------------------------------------------

func (w *World) runClientLane(i int, lane []Req) {
	defer w.wg.Done()
	defer func() {
		w.mu.Lock()
		w.lanesLeft--
		w.mu.Unlock()
		w.ctl.Wake()
	}()
	actor := fmt.Sprintf("cli%d", i)
	for _, rq := range lane {
		if !w.waitAfter(rq.After) {
			return
		}
		if rq.WaitMs > 0 {
			select {
			case <-time.After(ms(rq.WaitMs)):
			case <-w.stop:
				return
			}
		}
		w.ctl.Park("cli_next", actor, false)
		select {
		case <-w.stop:
			return
		default:
		}
		w.mu.Lock()
		w.reqsOpen++
		w.mu.Unlock()
		w.wg.Add(1)
		rq := rq
		done := make(chan struct{})
		go func() {
			defer w.wg.Done()
			defer close(done)
			defer func() {
				w.mu.Lock()
				w.reqsOpen--
				w.mu.Unlock()
				w.ctl.Wake()
			}()
			if rq.Kind == "upgrade" || rq.Kind == "slowupgrade" {
				w.doUpgrade(rq)
			} else {
				w.doRequest(rq)
			}
		}()
		if rq.Sync {
			select {
			case <-done:
			case <-w.stop:
				return
			}
		}
	}
}

func expectedBody(origin, rid string) string {
	return "origin=" + origin + ";rid=" + rid + ";" + strings.Repeat("x", 64)
}

var msgRe = regexp.MustCompile(`(?s)<article>\s*<p>(.*?)</p>`)
var customRe = regexp.MustCompile(`(?s)CUSTOM(\d+)\[(.*?)\]MOTSUC`)

func (w *World) sendKV(rq Req) KV {
	return KV{"r": rq.ID, "svc": rq.Svc, "host": rq.Host, "path": rq.Path, "kind": rq.Kind, "hold": rq.HoldMs,
		"hc": rq.HC, "chunked": rq.Chunked, "cookie": rq.Cookie, "tls": rq.TLS, "abort": rq.AbortMs, "method": dfltS(rq.Method, "GET"), "sync": rq.Sync}
}

func dfltS(s, d string) string {
	if s == "" {
		return d
	}
	return s
}

func (w *World) doRequest(rq Req) {
	addr := proxyHTTP
	if rq.TLS {
		addr = proxyHTTPS
	}
	ctx := context.Background()
	if rq.AbortMs > 0 {
		var cancel context.CancelFunc
		ctx, cancel = context.WithTimeout(ctx, ms(rq.AbortMs))
		defer cancel()
	}
	req, err := http.NewRequestWithContext(ctx, dfltS(rq.Method, "GET"), "http://"+addr+rq.Path, nil)
	if err != nil {
		w.rec.Emit("harness_error", KV{"what": err.Error()})
		return
	}
	req.Host = rq.Host
	req.Header.Set("X-Verif-Rid", rq.ID)
	req.Header.Set("X-Verif-Kind", rq.Kind)
	req.Header.Set("X-Verif-Hold", strconv.Itoa(rq.HoldMs))
	if rq.Chunked {
		req.Header.Set("X-Verif-Chunked", "1")
	}
	if rq.Cookie != "" {
		req.Header.Set("Cookie", "kamal-rollout="+rq.Cookie)
	}
	w.rec.Emit("cli_send", w.sendKV(rq))
	resp, err := w.clientTr.RoundTrip(req)
	if err != nil {
		w.rec.Emit("cli_recv", KV{"r": rq.ID, "status": 0, "origin": "none", "intact": false, "msg": "", "err": err.Error(), "page": "", "markup": false})
		return
	}
	body, rerr := io.ReadAll(resp.Body)
	resp.Body.Close()
	origin := resp.Header.Get("X-Verif-Origin")
	kv := KV{"r": rq.ID, "status": resp.StatusCode, "msg": "", "page": "", "loc": resp.Header.Get("Location"), "markup": false}
	if origin == "" {
		origin = "proxy"
		kv["intact"] = false
		if m := customRe.FindSubmatch(body); m != nil {
			kv["page"] = "custom" + string(m[1])
			kv["msg"] = html.UnescapeString(string(m[2]))
			if strings.ContainsAny(string(m[2]), "<>") {
				kv["markup"] = true
			}
		} else if m := msgRe.FindSubmatch(body); m != nil {
			kv["page"] = "builtin"
			txt := strings.TrimSpace(string(m[1]))
			if !strings.HasPrefix(txt, "<strong>") {
				kv["msg"] = html.UnescapeString(txt)
			}
			if !strings.HasPrefix(txt, "<strong>") && strings.ContainsAny(txt, "<>") {
				kv["markup"] = true // the operator's message must appear as escaped text, never as markup
			}
		}
	} else {
		kv["intact"] = rerr == nil && string(body) == expectedBody(origin, rq.ID)
	}
	if rerr != nil {
		kv["err"] = rerr.Error()
	}
	kv["origin"] = origin
	w.rec.Emit("cli_recv", kv)
}

func (w *World) doUpgrade(rq Req) {
	w.rec.Emit("cli_send", w.sendKV(rq))
	conn, err := w.net.Dialer("client")(context.Background(), "mem", proxyHTTP)
	if err != nil {
		w.rec.Emit("cli_recv", KV{"r": rq.ID, "status": 0, "origin": "none", "intact": false, "msg": "", "err": err.Error(), "page": "", "markup": false})
		return
	}
	defer conn.Close()
	go func() {
		<-w.stop
		conn.Close()
	}()
	fmt.Fprintf(conn, "GET %s HTTP/1.1\r\nHost: %s\r\nConnection: Upgrade\r\nUpgrade: websocket\r\nX-Verif-Rid: %s\r\nX-Verif-Kind: %s\r\nX-Verif-Hold: %d\r\n\r\n", rq.Path, rq.Host, rq.ID, rq.Kind, rq.HoldMs)
	br := bufio.NewReader(conn)
	resp, err := http.ReadResponse(br, nil)
	if err != nil {
		w.rec.Emit("cli_recv", KV{"r": rq.ID, "status": 0, "origin": "none", "intact": false, "msg": "", "err": err.Error(), "page": "", "markup": false})
		return
	}
	origin := resp.Header.Get("X-Verif-Origin")
	if origin == "" {
		origin = "proxy"
	}
	w.rec.Emit("cli_recv", KV{"r": rq.ID, "status": resp.StatusCode, "origin": origin, "intact": resp.StatusCode == 101, "msg": "", "page": "", "markup": false})
	if resp.StatusCode != 101 {
		return
	}
	// stay connected until the other side closes
	io.Copy(io.Discard, br)
	w.rec.Emit("cli_closed", KV{"r": rq.ID})
}

var _ = net.ErrClosed

// spinFor keeps the calling goroutine running (not blocked) for about us microseconds of real time.
func spinFor(us int) {
	t0 := rtNow()
	for rtNow()-t0 < int64(us)*1000 {
		runtime.Gosched()
	}
}

// panicLogWriter receives the front server's error log: "http: panic serving ..." means a handler of the proxy
// panicked while serving a request (net/http recovers it and aborts the connection).
type panicLogWriter struct{ w *World }

func (p *panicLogWriter) Write(b []byte) (int, error) {
	s := string(b)
	if strings.Contains(s, "panic serving") {
		what := s
		if i := strings.Index(s, "panic serving"); i >= 0 {
			what = firstLines(s[i:], 1)
		}
		stack := firstLines(s, 14)
		if strings.Contains(s, "kamal-proxy/internal/server") {
			p.w.rec.Emit("panic", KV{"c": "request", "what": what, "stack": stack})
		}
	}
	return len(b), nil
}
