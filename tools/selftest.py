#!/usr/bin/env python3
"""Negative controls for the design-level trace specifications (ProxyTrace, SnapTrace, OwnTrace).

Recorded scenarios of the unchanged proxy are corrupted one line at a time - a line dropped, or one logged field
changed - and each corrupted trace must be REJECTED by TLC; the uncorrupted trace must be accepted.  A line kind whose
removal is accepted constrains nothing (it is listed, with the reason, in NEUTRAL).  Exit 0 iff every control behaves.

    python3 tools/selftest.py [seed]
"""
import copy, json, os, sys, collections
sys.path.insert(0, os.path.dirname(os.path.abspath(__file__)))
import vlib, dtrace

# line kinds that are pure observations of a state D already has (dropping them loses a check, not a step)
NEUTRAL = {
    "proxy": {"DrainStart": "observation: the drain goroutine exists", "DrainWaited": "observation: the drain stopped waiting", "Released": "observation: the waiter woke up",
              "HcNotified": "a step only when the probe changed nothing", "Recv": "a step only for held requests",
              "GatePassed": "a step only for held requests", "EndInflight": "stutter when the request was already cut",
              "HcClose": "stutter for all but the first close of a dispose", "PreRet": "stutter when nothing is pending",
              "Remove": "observation after the first close did the step", "Routed": None, "Send": None},
    "snap": {"File": "observation of the state file", "Mem": "stutter when the configuration did not change",
             "Return": "last step of a command: no later line depends on it", "ReturnWithoutSave": "last step of a command"},
    "own": {"Probing": "observation of the live probe loops", "Close": "stutter for repeated closes", "Remove": "observation",
            "PreRet": "stutter when nothing is pending", "Return": "last step of a command: no later line depends on it",
            "NotFound": "without it the step is taken at the command's return"},
}
FIELD = {  # kind -> (line kind, field, corrupt(value, header))
    "proxy": [("Rotation", "healthy", lambda v, h: []), ("HcApply", "state", lambda v, h: 3 if v != 3 else 2),
              ("Install", "ver", lambda v, h: 0), ("UpdateLb", "lb", lambda v, h: 0),
              ("Gate", "state", lambda v, h: "stopped" if v != "stopped" else "running"),
              ("PreClaim", "lb", lambda v, h: 0), ("Ret", "res", lambda v, h: "unhealthy" if v == "ok" else "ok"),
              ("DrainSnapshot", "rs", lambda v, h: v + [r for r in h["reqs"] if r not in v][:1] if [r for r in h["reqs"] if r not in v] else None),
              ("Claim", "t", lambda v, h: "nosuchtarget")],
    "snap": [("File", "cfg", lambda v, h: v + " "), ("Mem", "cfg", lambda v, h: None)],
    "own": [("Return", "res", lambda v, h: "host_in_use" if v == "ok" else "ok"), ("Probing", "lbs", lambda v, h: v + ["zz"])],
}
FAMILY = {"proxy": ["deploy", "pause", "rollout"], "snap": ["snap"], "own": ["own"]}


def run(kind, seed):
    binary = vlib.build_harness()
    traces = []
    for fam in FAMILY[kind]:
        for o in vlib.run_executor(binary, fam, 64, seed, "quick", procs=4):
            traces.append(os.path.join(o, "trace.ndjson"))
    tr = {"proxy": dtrace.translate, "snap": dtrace.translate_snap, "own": dtrace.translate_own}[kind]
    scen = []
    for tp in traces:
        for scn, evs in dtrace.scenarios(tp):
            lines, why = tr(evs)
            if lines:
                scen.append(lines)
    wd = vlib.spec_copy("selftest-" + kind)
    module = dtrace.KINDS[kind][0]
    jobs, meta = [], []

    def add(lines, what):
        jobs.append((wd, len(jobs), lines, module))
        meta.append(what)

    kinds_seen = collections.Counter(l["a"] for s in scen for l in s[1:])
    # the uncorrupted traces
    for s in scen[:12]:
        add(s, ("intact", None))
    # drop the first line of each kind (from the first scenario that has one)
    for a in sorted(kinds_seen):
        for s in scen:
            idx = [i for i, l in enumerate(s) if i > 0 and l["a"] == a]
            if idx:
                add(s[:idx[0]] + s[idx[0] + 1:], ("drop", a))
                break
    # corrupt one logged field
    for a, f, fn in FIELD[kind]:
        for s in scen:
            idx = [i for i, l in enumerate(s) if i > 0 and l["a"] == a and f in l]
            ok = False
            for i in idx:
                v = fn(copy.deepcopy(s[i][f]), s[0])
                if v is not None and v != s[i][f]:
                    c = copy.deepcopy(s)
                    c[i][f] = v
                    add(c, ("field", a + "." + f))
                    ok = True
                    break
            if ok:
                break
    from concurrent.futures import ThreadPoolExecutor
    with ThreadPoolExecutor(max_workers=8) as ex:
        results = list(ex.map(dtrace._run_one, jobs))
    bad = []
    rows = []
    for r, (what, a) in zip(results, meta):
        accepted = r.get("reached") is not None and r["rc"] == 0 and r["reached"] >= r["lines"]
        rejected = not accepted
        if what == "intact":
            if not accepted:
                bad.append("an intact trace was not accepted: %r" % (r.get("next"),))
        elif what == "drop":
            neutral = a in NEUTRAL[kind]
            rows.append((kind, "drop " + a, "rejected" if rejected else ("accepted (%s)" % (NEUTRAL[kind].get(a) or "no effect of its own")
                                                                          if neutral else "ACCEPTED")))
            if not rejected and not neutral:
                bad.append("dropping a %s line was accepted" % a)
        else:
            rows.append((kind, "corrupt " + a, "rejected" if rejected else "ACCEPTED"))
            if not rejected:
                bad.append("corrupting %s was accepted" % a)
    return rows, bad, len(scen)


def main():
    seed = int(sys.argv[1]) if len(sys.argv) > 1 else 1
    allbad = []
    for kind in ("proxy", "snap", "own"):
        rows, bad, n = run(kind, seed)
        print("== %s: %d scenarios" % (dtrace.KINDS[kind][0], n))
        for k, what, res in rows:
            print("   %-28s %s" % (what, res))
        allbad += ["%s: %s" % (kind, b) for b in bad]
    for b in allbad:
        print("SELFTEST FAILED:", b)
    sys.exit(1 if allbad else 0)


main()
