SPECIFICATION Spec
CONSTANTS
  Targets <- T3
  Order <- Order3
  MaxProbes = 2
  MaxClaims = 2
  BuildUnderLock = TRUE
  NotifyAlways = FALSE
  CoalesceRebuilds = FALSE
INVARIANTS
  TypeOK
  R_Settled
  R_Claim
  R_NoneJustified
  R_Mutex
  R_ReadsFresh
CHECK_DEADLOCK FALSE
