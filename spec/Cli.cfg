SPECIFICATION Spec
INVARIANTS
  Inv_FlagWins
  Inv_NeverBad
  Inv_BadMeansDefault
CHECK_DEADLOCK FALSE
