---------------------------- MODULE MC_Routing ----------------------------
(* Reachable routing tables over a small universe of names, host patterns, *)
(* path prefixes and TLS options; every deploy / remove is an action whose *)
(* label carries indices into the option tables below (tools/routing.py    *)
(* mirrors them), so that TLC behaviours can be replayed into the proxy.    *)
EXTENDS Routing

CONSTANTS Names, MaxServices

AD   == <<"a", "d">>
WD   == <<"*", "d">>
BAD  == <<"b", "a", "d">>
D1   == <<"d">>
Dflt == <<>>
Root   == <<>>
Api    == <<"api">>
Apiary == <<"apiary">>
ApiV1  == <<"api", "v1">>

V6   == <<"::1">>      \* an IPv6 literal (bound both as "::1" and as "[::1]")
HostSets == << {Dflt}, {AD}, {WD}, {BAD}, {AD, BAD}, {WD, AD}, {D1}, {V6} >>
PathSets == << {Root}, {Api}, {Apiary}, {ApiV1}, {Root, Api}, {Api, ApiV1} >>
TlsOpts  == << [tls |-> FALSE, redirect |-> TRUE, acme |-> FALSE],
               [tls |-> TRUE,  redirect |-> TRUE, acme |-> FALSE],
               [tls |-> TRUE,  redirect |-> FALSE, acme |-> FALSE],
               [tls |-> TRUE,  redirect |-> TRUE, acme |-> TRUE] >>

\* request hosts and paths against which a table is probed
ReqHosts == {AD, BAD, <<"c", "d">>, <<"c", "b", "a", "d">>, D1, <<"x", "y">>, <<"localhost">>, <<"::1">>}
ReqPaths == {Root, Api, <<"api", "">>, Apiary, ApiV1, <<"api", "v1", "x">>, <<"api", "", "x">>, <<"", "api">>, <<"x">>, <<"apiv1">>}

VARIABLES tbl, last      \* last: result of the most recent command (makes rejected commands visible as steps)

Opt(hi, pi, ti) ==
  [hosts |-> HostSets[hi], paths |-> PathSets[pi], tls |-> TlsOpts[ti].tls, redirect |-> TlsOpts[ti].redirect,
   acme |-> TlsOpts[ti].acme]

Init == tbl = <<>> /\ last = "none"

DoDeploy(s, hi, pi, ti) ==
  /\ s \in DOMAIN tbl \/ Cardinality(DOMAIN tbl) < MaxServices
  \* the CLI refuses TLS without a host or without the root path; sub-path services carry no TLS flags of their own
  /\ TlsOpts[ti].tls => (Dflt \notin HostSets[hi] /\ Root \in PathSets[pi])
  \* automatic certificates are only exercised where they are refused (no ACME traffic in the sandbox)
  /\ TlsOpts[ti].acme => \E h \in HostSets[hi] : IsWild(h)
  /\ tbl' = Deploy(tbl, s, Opt(hi, pi, ti))
  /\ last' = DeployResult(tbl, s, Opt(hi, pi, ti))

DoRemove(s) ==
  /\ s \in DOMAIN tbl
  /\ tbl' = Remove(tbl, s)
  /\ last' = "ok"

Next == \/ \E s \in Names, hi \in 1..Len(HostSets), pi \in 1..Len(PathSets), ti \in 1..Len(TlsOpts) : DoDeploy(s, hi, pi, ti)
        \/ \E s \in Names : DoRemove(s)

Spec == Init /\ [][Next]_<<tbl, last>>
View == tbl

\* C05/C06: a rejected command changes nothing
Act_RejectedChangesNothing == [][last' # "ok" => tbl' = tbl]_<<tbl, last>>
\* C05: ownership is preserved by every command
Inv_Ownership == Ownership(tbl)
\* C04: the routing function is single-valued for every request
Inv_RouteWellDefined == \A h \in ReqHosts, p \in ReqPaths : RouteWellDefined(tbl, h, p)
\* C04: a request is never routed to a service that does not claim a matching binding
Inv_RouteSound == \A h \in ReqHosts, p \in ReqPaths :
                    LET s == Route(tbl, h, p) IN
                    s # NoRoute => \E hp \in tbl[s].hosts, pp \in tbl[s].paths : IsPrefix(pp, p) /\ hp = Level(tbl, h)
\* C16: a certificate is only ever served for names bound to a TLS-enabled service
Inv_Cert == \A h \in ReqHosts : Cert(tbl, h) # "none" => tbl[Cert(tbl, h)].tls
\* C16: no plain request is forwarded by a service whose effective policy is TLS+redirect, no TLS request by one without TLS
Inv_Decision == \A h \in ReqHosts, p \in ReqPaths, https \in BOOLEAN :
                  LET d == Decision(tbl, https, h, p) IN
                  d \notin {"404", "301", "503"} =>
                     LET e == Effective(tbl, d) IN (https => e.tls) /\ (~https => ~(e.tls /\ e.redirect))
===========================================================================
