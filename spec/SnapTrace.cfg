SPECIFICATION TraceSpec
CONSTANTS
  Cmds <- TCmds
  Cfgs <- TCfgs
  Init0 = "[]"
  Atomic = TRUE
  Locked = TRUE
  MaxMut = 1000000
INVARIANTS
  S_Complete
  S_Window
  S_Current
  S_Mutex
POSTCONDITION Accepted
CHECK_DEADLOCK FALSE
