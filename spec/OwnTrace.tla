------------------------------ MODULE OwnTrace ------------------------------
(***************************************************************************)
(* Trace specification for Own.tla: the install / conflict / remove emits, *)
(* probe-loop starts and stops and command returns recorded from one       *)
(* scenario of racing commands on the real proxy (rewritten line by line   *)
(* by tools/dtrace.py) must be a behaviour of Own!Spec.  After every       *)
(* return the set of load balancers that are really being probed is        *)
(* compared with the model's.                                              *)
(***************************************************************************)
EXTENDS Own, Json, IOUtils, Sequences

Trace == ndJsonDeserialize(IOEnv.VERIF_TRACE)
Hdr == Trace[1]
SetOf(seq) == {seq[i] : i \in 1..Len(seq)}
TCmds == SetOf(Hdr.cmds)
Info(c) == LET i == CHOOSE i \in 1..Len(Hdr.cmds) : Hdr.cmds[i] = c IN Hdr.info[i]
TKind == [c \in TCmds |-> Info(c).kind]
TName == [c \in TCmds |-> Info(c).name]
TBind == [c \in TCmds |-> SetOf(Info(c).bind)]

VARIABLE l
tvars == <<vars, l>>
Ev == Trace[l]
IsEvent(a) == l <= Len(Trace) /\ Ev.a = a /\ l' = l + 1
Stutter == UNCHANGED vars

TCall     == IsEvent("Call") /\ Call(Ev.c)
TRdCall   == IsEvent("RdCall") /\ RdCall(Ev.c) /\ pc'[Ev.c] = "wait"
TUpdate   == IsEvent("UpdateSlot") /\ UpdateSlot(Ev.c)
\* remove / rollout deploy looked the service up and did not find it (emit at that very point)
TNotFound == IsEvent("NotFound") /\ (IF Kind[Ev.c] = "remove" THEN Remove(Ev.c) ELSE RdCall(Ev.c)) /\ res'[Ev.c] = "not_found"
TWaitOk   == IsEvent("WaitOk") /\ WaitOk(Ev.c)
TInstall  == IsEvent("Install") /\ Install(Ev.c) /\ pc'[Ev.c] = "installed"
TConflict == IsEvent("Conflict") /\ Install(Ev.c) /\ pc'[Ev.c] = "conflict"
\* the remove emit comes after the probe loops were closed, inside the same critical section: the Close line did the step
TRemove   == IsEvent("Remove") /\ pc[Ev.c] = "ret" /\ res[Ev.c] = "ok" /\ Stutter
\* the probe loops of load balancer Ev.lb are stopped: by whichever command is at the step that does so
TClose    == IsEvent("Close") /\
               IF \E c \in Cmds : pc[c] = "installed" /\ base[c] = Ev.lb
               THEN \E c \in Cmds : pc[c] = "installed" /\ base[c] = Ev.lb /\ DrainDispose(c)
               ELSE IF Ev.lb \in Cmds /\ pc[Ev.lb] = "conflict" THEN ConflictDispose(Ev.lb)
               ELSE IF Ev.lb \in Cmds /\ pc[Ev.lb] = "wait" THEN WaitFail(Ev.lb)
               ELSE IF \E c \in Cmds : Kind[c] = "remove" /\ pc[c] = "new" /\ tbl[Name[c]] # None /\ Ev.lb \in {tbl[Name[c]], rb[tbl[Name[c]]]}
               THEN \E c \in Cmds : Kind[c] = "remove" /\ pc[c] = "new" /\ tbl[Name[c]] # None /\ Ev.lb \in {tbl[Name[c]], rb[tbl[Name[c]]]} /\ Remove(c)
               ELSE Ev.lb \notin probing /\ Stutter
\* what is left of the command before it returns and has no event of its own
TPreRet   == IsEvent("PreRet") /\
               CASE pc[Ev.c] = "installed" -> DrainDispose(Ev.c)          \* nothing (left) to dispose
                 [] pc[Ev.c] = "conflict"  -> ConflictDispose(Ev.c)
                 [] pc[Ev.c] = "wait"      -> WaitFail(Ev.c)
                 [] pc[Ev.c] = "new" /\ Kind[Ev.c] = "remove"  -> Remove(Ev.c) /\ res'[Ev.c] = "not_found"    \* unknown service
                 [] pc[Ev.c] = "new" /\ Kind[Ev.c] = "rdeploy" -> RdCall(Ev.c) /\ res'[Ev.c] = "not_found"
                 [] pc[Ev.c] = "ret"       -> Stutter
TReturn   == IsEvent("Return") /\ res[Ev.c] = Ev.res /\ Return(Ev.c)
TProbing  == IsEvent("Probing") /\ probing = SetOf(Ev.lbs) /\ Stutter

TraceNext == /\ \/ TCall \/ TRdCall \/ TUpdate \/ TNotFound \/ TWaitOk \/ TInstall \/ TConflict \/ TRemove \/ TClose \/ TPreRet \/ TReturn \/ TProbing
             /\ TLCSet(1, IF TLCGet(1) < l' THEN l' ELSE TLCGet(1))
TraceInit == Init /\ l = 2 /\ TLCSet(1, 2)
TraceSpec == TraceInit /\ [][TraceNext]_tvars

Accepted ==
  LET reached == TLCGet(1)
      r == [lines |-> Len(Trace), reached |-> reached - 1,
            next |-> IF reached <= Len(Trace) THEN Trace[reached] ELSE [a |-> "-"]]
  IN JsonSerialize(IOEnv.VERIF_OUT, r)
=============================================================================
