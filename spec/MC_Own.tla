------------------------------- MODULE MC_Own -------------------------------
EXTENDS Own
\* three racing deploys: A and B fight for p1, B and a redeploy of A for p2
C3      == {"c1", "c2", "c3"}
Kind3   == [c \in C3 |-> "deploy"]
Name3   == [c \in C3 |-> IF c = "c2" THEN "B" ELSE "A"]
Bind3   == [c \in C3 |-> CASE c = "c1" -> {"p1"} [] c = "c2" -> {"p1", "p2"} [] c = "c3" -> {"p2"}]
\* four commands with a remove: A deploys p1, B deploys p1, A is removed, C deploys p1 and p2
C4      == {"c1", "c2", "c3", "c4"}
Kind4   == [c \in C4 |-> IF c = "c3" THEN "remove" ELSE "deploy"]
Name4   == [c \in C4 |-> CASE c = "c1" -> "A" [] c = "c2" -> "B" [] c = "c3" -> "A" [] c = "c4" -> "C"]
Bind4   == [c \in C4 |-> CASE c = "c1" -> {"p1"} [] c = "c2" -> {"p1"} [] c = "c3" -> {} [] c = "c4" -> {"p1", "p2"}]
\* five commands, three services, three pairs, one remove
C5      == {"c1", "c2", "c3", "c4", "c5"}
Kind5   == [c \in C5 |-> IF c = "c5" THEN "remove" ELSE "deploy"]
Name5   == [c \in C5 |-> CASE c = "c1" -> "A" [] c = "c2" -> "B" [] c = "c3" -> "A" [] c = "c4" -> "C" [] c = "c5" -> "B"]
Bind5   == [c \in C5 |-> CASE c = "c1" -> {"p1"} [] c = "c2" -> {"p1", "p2"} [] c = "c3" -> {"p2", "p3"} [] c = "c4" -> {"p3"} [] c = "c5" -> {}]
\* a rollout deploy of A waits while A is removed and its pair is given to B (seeded change C05-3)
C6      == {"c1", "c2", "c3", "c4"}
Kind6   == [c \in C6 |-> CASE c = "c1" -> "deploy" [] c = "c2" -> "rdeploy" [] c = "c3" -> "remove" [] c = "c4" -> "deploy"]
Name6   == [c \in C6 |-> IF c = "c4" THEN "B" ELSE "A"]
Bind6   == [c \in C6 |-> IF c \in {"c1", "c4"} THEN {"p1"} ELSE {}]
=============================================================================
