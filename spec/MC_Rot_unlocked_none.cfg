SPECIFICATION Spec
CONSTANTS
  Targets <- T2
  Order <- Order2
  MaxProbes = 3
  MaxClaims = 1
  BuildUnderLock = FALSE
  NotifyAlways = FALSE
  CoalesceRebuilds = FALSE
INVARIANTS
  R_NoneJustified
CHECK_DEADLOCK FALSE
