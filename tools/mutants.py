#!/usr/bin/env python3
"""Seeded-change bookkeeping.

  mutants.py confirm <src_dir> <worktree> <seed_id>   confirm a sub-agent's change in a scratch worktree
                                                     (suite passes with it, demo fails with it, demo passes without it)
                                                     and keep it as /verif/seeded/<seed_id>/
  mutants.py run <seed_id> [Cxx ...]                 apply seeded/<seed_id>/patch.diff to /repo, run the quick checks
                                                     (default: the property it breaks), undo, print and record result
"""
import json, os, re, shutil, signal, subprocess, sys, time

signal.signal(signal.SIGTERM, lambda *a: sys.exit(143))   # so that "finally" restores /repo when we are timed out

VERIF = os.path.dirname(os.path.dirname(os.path.abspath(__file__)))
REPO = "/repo"


def sh(cmd, cwd=None, timeout=1800):
    p = subprocess.run(cmd, cwd=cwd, shell=isinstance(cmd, str), capture_output=True, text=True, timeout=timeout)
    return p.returncode, p.stdout + p.stderr


def clean(wt):
    sh("git checkout -q -- . && git clean -fdq", cwd=wt)


def confirm(src, wt, sid):
    patch = os.path.join(src, "patch.diff")
    demos = [f for f in os.listdir(src) if f.endswith("_test.go") or f.endswith(".go")]
    meta = json.load(open(os.path.join(src, "meta.json")))
    ran = []
    clean(wt)
    rc, o = sh(["git", "apply", patch], cwd=wt)
    if rc != 0:
        print("patch does not apply", o); return False
    rc, o = sh("go build ./... && go test -mod=mod -vet=off -count=1 ./...", cwd=wt)
    ran.append("go build ./... && go test -mod=mod -vet=off -count=1 ./...  (with change) -> exit %d" % rc)
    suite_ok = rc == 0
    if not suite_ok:
        # one retry: the suite has a known flaky test
        rc, o = sh("go test -mod=mod -vet=off -count=1 ./...", cwd=wt)
        ran.append("retry -> exit %d" % rc)
        suite_ok = rc == 0
    names = []
    for d in demos:
        if d.endswith("_test.go"):
            pkgdir = "internal/cmd" if re.search(r"^package cmd\b", open(os.path.join(src, d)).read(), re.M) else "internal/server"
            dst = os.path.join(wt, pkgdir, "zz_" + sid.replace("-", "_") + "_" + d)
            shutil.copy(os.path.join(src, d), dst)
            names += re.findall(r"^func (Test\w+)\(", open(dst).read(), re.M)
    if not names:
        print("no demo test found"); clean(wt); return False
    runre = "^(" + "|".join(names) + ")$"
    cmd = "go test -mod=mod -vet=off -count=1 -run '%s' ./internal/server/ ./internal/cmd/" % runre
    rc1, o1 = sh(cmd, cwd=wt)
    ran.append(cmd + "  (with change) -> exit %d" % rc1)
    sh(["git", "apply", "-R", patch], cwd=wt)
    rc2, o2 = sh(cmd, cwd=wt)
    ran.append(cmd + "  (without change) -> exit %d" % rc2)
    clean(wt)
    ok = suite_ok and rc1 != 0 and rc2 == 0
    print(sid, "suite_ok=%s demo_fails_with=%s demo_passes_without=%s" % (suite_ok, rc1 != 0, rc2 == 0))
    if not ok:
        print(o1[-1500:] if rc1 == 0 else "", o2[-1500:] if rc2 != 0 else "", o[-1500:] if not suite_ok else "")
        return False
    dst = os.path.join(VERIF, "seeded", sid)
    os.makedirs(dst, exist_ok=True)
    shutil.copy(patch, os.path.join(dst, "patch.diff"))
    for d in demos:
        shutil.copy(os.path.join(src, d), os.path.join(dst, d + ".txt" if d.endswith(".go") else d))
    m = {"property": meta.get("property"), "summary": meta.get("summary"), "why_it_breaks": meta.get("why_it_breaks"),
         "needs_to_manifest": meta.get("needs_to_manifest"), "confirmed_by": ran, "base_commit": sh("git rev-parse --short HEAD", cwd=wt)[1].strip(),
         "demo_tests": names}
    json.dump(m, open(os.path.join(dst, "meta.json"), "w"), indent=1)
    return True


def run(sid, props):
    d = os.path.join(VERIF, "seeded", sid)
    meta = json.load(open(os.path.join(d, "meta.json")))
    props = props or [meta["property"]]
    rc, o = sh("git status --porcelain", cwd=REPO)
    if o.strip():
        print("refusing: /repo has uncommitted changes"); sys.exit(2)
    rc, o = sh(["git", "apply", os.path.join(d, "patch.diff")], cwd=REPO)
    if rc != 0:
        # hooks were added after the change was made: fall back to a 3-way apply
        rc, o = sh(["git", "apply", "-3", os.path.join(d, "patch.diff")], cwd=REPO)
        sh("git reset -q", cwd=REPO)
        if rc != 0:
            sh("git checkout -q -- .", cwd=REPO)
            print("patch does not apply to /repo:", o); sys.exit(2)
    rc, o = sh("GOFLAGS=-mod=mod GOTOOLCHAIN=local go1.26 build -tags verif ./...", cwd=REPO)
    if rc != 0:
        sh("git checkout -q -- .", cwd=REPO)
        print("patched tree does not build:", o); sys.exit(2)
    results = {}
    try:
        for p in props:
            t0 = time.time()
            rc, o = sh(["python3", "tools/check.py", p, "--tier", "quick", "--no-evidence"], cwd=VERIF, timeout=3600)
            first = [l for l in o.splitlines() if l.startswith("VIOLATION") or l.startswith("INCONCLUSIVE")][:1]
            detail = [l for l in o.splitlines() if l.startswith("  ")][:1]
            results[p] = {"exit": rc, "wall_s": round(time.time() - t0, 1), "first": (first + detail)}
            print(sid, p, "exit", rc, (first + detail))
    finally:
        sh("git checkout -q -- .", cwd=REPO)
    meta.setdefault("checks_run", {}).update(results)
    json.dump(meta, open(os.path.join(d, "meta.json"), "w"), indent=1)


def matrix(sids):
    """Run every seeded change against its property's quick check without touching /repo's working tree:
    the change is applied in a scratch worktree of /repo's HEAD (VERIF_REPO), the checks run from a snapshot
    of /verif taken now (so that work in /verif can go on meanwhile)."""
    snap = "/var/tmp/verif-snap-%d" % os.getpid()
    shutil.copytree(VERIF, snap, ignore=shutil.ignore_patterns(".git", "out", "evidence"))
    log = open("/var/tmp/matrix.log", "a")
    try:
        for sid in sids:
            d = os.path.join(VERIF, "seeded", sid)
            meta = json.load(open(os.path.join(d, "meta.json")))
            prop = meta["property"]
            wt = "/var/tmp/mutwt-%d" % os.getpid()
            sh(["git", "worktree", "remove", "--force", wt], cwd=REPO)
            rc, o = sh(["git", "worktree", "add", "-q", "--detach", wt, "HEAD"], cwd=REPO)
            if rc != 0:
                print(sid, "worktree failed", o, file=log, flush=True); continue
            try:
                rc, o = sh(["git", "apply", os.path.join(d, "patch.diff")], cwd=wt)
                if rc != 0:
                    rc, o = sh(["git", "apply", "-3", os.path.join(d, "patch.diff")], cwd=wt)
                if rc != 0:
                    print(sid, prop, "PATCH DOES NOT APPLY", o[:200], file=log, flush=True); continue
                rc, o = sh("GOFLAGS=-mod=mod GOTOOLCHAIN=local go1.26 build -tags verif ./...", cwd=wt)
                if rc != 0:
                    print(sid, prop, "DOES NOT BUILD", o[:200], file=log, flush=True); continue
                t0 = time.time()
                env = dict(os.environ, VERIF_REPO=wt)
                p = subprocess.run(["python3", os.path.join(snap, "tools", "check.py"), prop, "--tier", "quick", "--no-evidence"],
                                   cwd=snap, env=env, capture_output=True, text=True, timeout=3600)
                o = p.stdout + p.stderr
                first = [l for l in o.splitlines() if l.startswith("VIOLATION") or l.startswith("INCONCLUSIVE")][:1]
                detail = [l for l in o.splitlines() if l.startswith("  ")][:1]
                res = {"exit": p.returncode, "wall_s": round(time.time() - t0, 1), "first": [x[:300] for x in (first + detail)],
                       "head": sh("git rev-parse --short HEAD", cwd=REPO)[1].strip()}
                print(sid, prop, "exit", p.returncode, (first + detail)[:2], file=log, flush=True)
                meta.setdefault("checks_run", {})[prop] = res
                json.dump(meta, open(os.path.join(d, "meta.json"), "w"), indent=1)
            finally:
                sh(["git", "worktree", "remove", "--force", wt], cwd=REPO)
    finally:
        shutil.rmtree(snap, ignore_errors=True)
        print("DONE", file=log, flush=True)


def table():
    """Markdown table of the seeded changes and what the registered quick checks said (for DESIGN.md)."""
    rows = []
    for sid in sorted(os.listdir(os.path.join(VERIF, "seeded"))):
        meta = json.load(open(os.path.join(VERIF, "seeded", sid, "meta.json")))
        prop = meta["property"]
        r = (meta.get("checks_run") or {}).get(prop) or {}
        first = " ".join(r.get("first") or [])
        m = re.search(r"^\s*(\S+) subject=", (r.get("first") or ["", ""])[-1] if r.get("first") else "")
        inv = m.group(1) if m else ("panic" if "panicked" in first else ("race" if "race" in first.lower() else ("deadlock" if "deadlock" in first.lower() else "")))
        verdict = {0: "**missed**", 1: "detected" + (" (%s)" % inv if inv else ""), 2: "inconclusive"}.get(r.get("exit"), "not run")
        summ = re.sub(r"\s+", " ", meta.get("summary") or "")[:150]
        rows.append("| %s | %s | %s |" % (sid, summ.replace("|", "/"), verdict))
    print("| id | change | quick check of its property |\n|---|---|---|")
    print("\n".join(rows))


if __name__ == "__main__":
    if sys.argv[1] == "confirm":
        sys.exit(0 if confirm(sys.argv[2], sys.argv[3], sys.argv[4]) else 1)
    elif sys.argv[1] == "table":
        table()
    elif sys.argv[1] == "matrix":
        matrix(sys.argv[2:] or sorted(os.listdir(os.path.join(VERIF, "seeded"))))
    elif sys.argv[1] == "run":
        run(sys.argv[2], sys.argv[3:])
