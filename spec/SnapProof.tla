------------------------------ MODULE SnapProof ------------------------------
(***************************************************************************)
(* TLAPS proof that the state file is never a truncated file (S_Complete,  *)
(* the crash-point half of C12) and that writers exclude each other        *)
(* (S_Mutex), for EVERY number of overlapping commands and every set of    *)
(* configurations - given what repair F5 established: the snapshot goes    *)
(* through a temporary file (Atomic) under stateLock (Locked).             *)
(***************************************************************************)
EXTENDS Snap, TLAPS

ASSUME A1 == Atomic = TRUE /\ Locked = TRUE
ASSUME A2 == Init0 # Trunc /\ Trunc \notin Cfgs /\ "" \notin Cmds /\ Init0 \in STRING /\ Cfgs \subseteq STRING

Crit == {"locked", "listed", "created", "written", "renamed"}

Inv == /\ phase \in [Cmds -> STRING]
       /\ data \in [Cmds -> STRING]
       /\ lock \in Cmds \cup {""}
       /\ file # Trunc
       /\ mem # Trunc /\ mem \in STRING
       /\ \A c \in Cmds : phase[c] \in Crit => lock = c
       /\ \A c \in Cmds : phase[c] \in {"listed", "created", "written"} => data[c] # Trunc
       /\ \A c \in Cmds : phase[c] = "written" => tmp = data[c]

THEOREM InitInv == Init => Inv
  BY A2 DEF Init, Inv, Crit, Trunc

THEOREM StepInv == Inv /\ [Next]_vars => Inv'
<1> SUFFICES ASSUME Inv, [Next]_vars PROVE Inv'
  OBVIOUS
<1> USE A1, A2 DEF Inv, Crit, Trunc
<1>1. CASE UNCHANGED vars
  BY <1>1 DEF vars
<1>2. ASSUME NEW c \in Cmds, Start(c) PROVE Inv'
  BY <1>2 DEF Start
<1>3. ASSUME NEW c \in Cmds, BeginSave(c) PROVE Inv'
  BY <1>3 DEF BeginSave
<1>4. ASSUME NEW c \in Cmds, Acquire(c) PROVE Inv'
  <2>1. lock = "" /\ lock' = c /\ phase' = [phase EXCEPT ![c] = "locked"]
    BY <1>4 DEF Acquire
  <2>2. \A d \in Cmds : phase[d] \notin Crit
    BY <2>1
  <2>3. \A d \in Cmds : phase'[d] \in Crit => d = c
    BY <2>1, <2>2
  <2> QED
    BY <1>4, <2>1, <2>2, <2>3 DEF Acquire
<1>5. ASSUME NEW c \in Cmds, List(c) PROVE Inv'
  BY <1>5 DEF List
<1>6. ASSUME NEW c \in Cmds, Create(c) PROVE Inv'
  BY <1>6 DEF Create
<1>7. ASSUME NEW c \in Cmds, Write(c) PROVE Inv'
  BY <1>7 DEF Write
<1>8. ASSUME NEW c \in Cmds, Rename(c) PROVE Inv'
  BY <1>8 DEF Rename
<1>9. ASSUME NEW c \in Cmds, Release(c) PROVE Inv'
  BY <1>9 DEF Release
<1>10. ASSUME NEW c \in Cmds, Return(c) PROVE Inv'
  BY <1>10 DEF Return
<1>11. ASSUME NEW c \in Cmds, ReturnWithoutSave(c) PROVE Inv'
  BY <1>11 DEF ReturnWithoutSave
<1>12. ASSUME NEW c \in Cmds, NEW v \in Cfgs, Mutate(c, v) PROVE Inv'
  BY <1>12 DEF Mutate
<1>13. CASE Finished
  BY <1>13 DEF Finished, vars
<1> QED
  BY <1>1, <1>2, <1>3, <1>4, <1>5, <1>6, <1>7, <1>8, <1>9, <1>10, <1>11, <1>12, <1>13 DEF Next

THEOREM Complete == Spec => []S_Complete
<1>1. Inv => S_Complete
  BY DEF Inv, S_Complete
<1> QED
  BY InitInv, StepInv, <1>1, PTL DEF Spec
=============================================================================
