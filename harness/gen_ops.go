package harness

import (
	"fmt"
	"math/rand"
	"strings"
)

// GenPause: one service; deploy, then a random sequential history of pause /
// stop / resume / repeated pause / redeploy, with requests (plain, slow,
// health-check GETs, long-running, upgraded) arriving at any time.
// Serves C03 C07 C08 C17.
func GenPause(seed int64, idx int, tier string) *Plan {
	rng := rand.New(rand.NewSource(seed*7000003 + int64(idx)))
	p := &Plan{Family: "pause", Seed: seed*7000003 + int64(idx), Targets: map[string]TargetScript{}, QuantumMs: 100, SettleMs: 9000}
	p.Urgent = rng.Intn(4) > 0
	pickSched(rng, p)
	if idx%8 == 7 {
		return sickTargetTemplate(rng, p, "pause")
	}
	tn := 0
	newGroup := func(n int) []string {
		var g []string
		for i := 0; i < n; i++ {
			tn++
			name := fmt.Sprintf("t%d", tn)
			g = append(g, name)
			p.Targets[name] = probeScriptHealthy(rng)
		}
		return g
	}
	lane := []Cmd{{ID: "c1", Kind: "deploy", Svc: "A", Hosts: []string{"a.test"}, Targets: newGroup(1 + rng.Intn(2)),
		DeployTimeoutMs: 2500, DrainTimeoutMs: 1000}}
	n := 3 + rng.Intn(4)
	if tier == "thorough" {
		n = 3 + rng.Intn(6)
	}
	drain := 1000
	msgs := []string{"back soon", "closed <b>for</b> maintenance & repairs", "{{.Message}} {{ 1 | printf \"%d\" }}", "\"quoted\" 'text' été", ""}
	for i := 0; i < n; i++ {
		c := Cmd{ID: fmt.Sprintf("c%d", i+2), Svc: "A"}
		switch x := rng.Intn(10); {
		case x < 3:
			c.Kind = "pause"
			c.DrainTimeoutMs = []int{500, 1000, 2000}[rng.Intn(3)]
			c.MaxPauseMs = []int{1500, 2500, 4000}[rng.Intn(3)]
			drain = c.DrainTimeoutMs
		case x < 5:
			c.Kind = "stop"
			c.DrainTimeoutMs = []int{500, 1000, 2000}[rng.Intn(3)]
			c.Msg = msgs[rng.Intn(len(msgs))]
			drain = c.DrainTimeoutMs
		case x < 8:
			c.Kind = "resume"
		default:
			c.Kind = "deploy"
			c.Hosts = []string{"a.test"}
			c.Targets = newGroup(1 + rng.Intn(2))
			c.DeployTimeoutMs = 3500
			c.DrainTimeoutMs = []int{500, 1000, 2000}[rng.Intn(3)]
			if rng.Intn(2) == 0 {
				// takes a while to become healthy: other commands may overlap this deploy
				p.Targets[c.Targets[0]] = probeScriptAfterFailures(rng, 1+rng.Intn(2))
			}
		}
		if rng.Intn(2) == 0 {
			c.WaitMs = offGrid(rng, 10, 3000)
		}
		lane = append(lane, c)
	}
	if rng.Intn(6) == 0 {
		// a pause-type command lands while a redeploy is still waiting for its new targets
		slow := newGroup(1)
		p.Targets[slow[0]] = probeScriptAfterFailures(rng, 2)
		lane = append(lane[:1], append([]Cmd{{ID: "d2", Kind: "deploy", Svc: "A", Hosts: []string{"a.test"}, Targets: slow,
			DeployTimeoutMs: 3500, DrainTimeoutMs: 500}}, lane[1:]...)...)
		x := Cmd{ID: "x0", Svc: "A", After: "c1", WaitMs: offGrid(rng, 200, 1700), DrainTimeoutMs: 500, MaxPauseMs: 2500, Msg: "held"}
		x.Kind = []string{"stop", "pause"}[rng.Intn(2)]
		p.Lanes = [][]Cmd{lane, {x}}
	} else {
		p.Lanes = [][]Cmd{lane}
	}
	// a second operator lane that overlaps commands on the same service
	if len(p.Lanes) == 1 && rng.Intn(4) == 0 {
		c := Cmd{ID: "x1", Svc: "A", After: "c1", WaitMs: offGrid(rng, 10, 4000)}
		switch rng.Intn(3) {
		case 0:
			c.Kind, c.DrainTimeoutMs, c.MaxPauseMs = "pause", 1000, 2500
		case 1:
			c.Kind, c.DrainTimeoutMs, c.Msg = "stop", 1000, "overlap"
		default:
			c.Kind = "resume"
		}
		p.Lanes = append(p.Lanes, []Cmd{c})
	}
	if idx%3 == 1 {
		// the service has an error page of its own for 503 (C08: the stop message is rendered into it)
		for _, lane := range p.Lanes {
			for k := range lane {
				if lane[k].Kind == "deploy" {
					lane[k].ErrorPages = "@custom503"
				}
			}
		}
	}
	nCli := 2 + rng.Intn(3)
	rn := 0
	for l := 0; l < nCli; l++ {
		var cl []Req
		for i := 0; i < 2+rng.Intn(4); i++ {
			rn++
			r := Req{ID: fmt.Sprintf("r%d", rn), Svc: "A", Host: "a.test", Path: "/x"}
			switch x := rng.Intn(12); {
			case x < 6:
				r.Kind = "plain"
			case x < 8:
				r.Kind = "slow"
				r.HoldMs = offGrid(rng, 20, drain+600)
				r.Chunked = r.HoldMs%3 == 0
			case x < 10:
				r.Kind = "plain"
				r.HC = true
				r.Path = "/up"
			case x < 11:
				r.Kind = "forever"
			default:
				r.Kind = "upgrade"
			}
			if i == 0 {
				r.After = "c1"
			}
			if rng.Intn(2) == 0 {
				r.WaitMs = offGrid(rng, 10, 3500)
			}
			cl = append(cl, r)
		}
		p.Clients = append(p.Clients, cl)
	}
	return p
}

// GenRollout: deploy, rollout deploy, rollout set / stop, redeploys of both
// slots, pause, remove; requests with and without the rollout cookie.
// Serves C01 C03 C17 (rollout slot) and C10's history part.
func GenRollout(seed int64, idx int, tier string) *Plan {
	rng := rand.New(rand.NewSource(seed*9000007 + int64(idx)))
	p := &Plan{Family: "rollout", Seed: seed*9000007 + int64(idx), Targets: map[string]TargetScript{}, QuantumMs: 100, SettleMs: 9000}
	p.Urgent = rng.Intn(4) > 0
	pickSched(rng, p)
	tn := 0
	newGroup := func(n int, healthy bool) []string {
		var g []string
		for i := 0; i < n; i++ {
			tn++
			name := fmt.Sprintf("t%d", tn)
			g = append(g, name)
			switch {
			case healthy || rng.Intn(3) > 0:
				p.Targets[name] = probeScriptHealthy(rng)
			case rng.Intn(2) == 0:
				p.Targets[name] = probeScriptAfterFailures(rng, 1+rng.Intn(3))
			default:
				p.Targets[name] = probeScriptNever(rng)
			}
		}
		return g
	}
	lane := []Cmd{{ID: "c1", Kind: "deploy", Svc: "A", Hosts: []string{"a.test"}, Targets: newGroup(1+rng.Intn(2), true),
		DeployTimeoutMs: 2500, DrainTimeoutMs: 1000}}
	drain := 1000
	story := rng.Intn(3) > 0 // most plans start with a working rollout: deploy, rollout deploy, split
	if story {
		lane = append(lane,
			Cmd{ID: "c2", Kind: "rollout_deploy", Svc: "A", Targets: newGroup(1+rng.Intn(2), true), DeployTimeoutMs: 2500, DrainTimeoutMs: 1000},
			Cmd{ID: "c3", Kind: "rollout_set", Svc: "A", Pct: []int{100, 100, 50}[rng.Intn(3)], Allow: []string{"vip"}})
	}
	longCookie := false
	if story && rng.Intn(3) == 0 {
		// the split is withdrawn while cookie traffic is still in flight on the rollout targets, then the
		// service is paused/stopped: the drain must still cover the rollout targets
		longCookie = true
		lane = append(lane, Cmd{ID: "c4", Kind: "rollout_stop", Svc: "A", WaitMs: offGrid(rng, 200, 900)})
		k := []string{"pause", "stop"}[rng.Intn(2)]
		lane = append(lane, Cmd{ID: "c5", Kind: k, Svc: "A", DrainTimeoutMs: []int{500, 1000, 3000}[rng.Intn(3)], MaxPauseMs: 2500, Msg: "x"})
	}
	n := 3 + rng.Intn(4)
	for i := 0; i < n; i++ {
		c := Cmd{ID: fmt.Sprintf("c%d", len(lane)+1), Svc: "A"}
		switch x := rng.Intn(15); {
		case x < 4:
			c.Kind = "rollout_deploy"
			c.Targets = newGroup(1+rng.Intn(3), rng.Intn(3) == 0)
			c.DeployTimeoutMs = []int{1500, 2500}[rng.Intn(2)]
			c.DrainTimeoutMs = []int{500, 1000, 2000}[rng.Intn(3)]
			drain = c.DrainTimeoutMs
		case x < 6:
			c.Kind = "rollout_set"
			c.Pct = []int{0, 50, 100, 100}[rng.Intn(4)]
			if rng.Intn(3) == 0 {
				c.Allow = []string{"vip"}
			}
		case x < 8:
			c.Kind = "rollout_stop"
		case x < 10:
			c.Kind = "deploy"
			c.Hosts = []string{"a.test"}
			c.Targets = newGroup(1+rng.Intn(2), rng.Intn(2) == 0)
			c.DeployTimeoutMs = []int{1500, 2500}[rng.Intn(2)]
			c.DrainTimeoutMs = []int{500, 1000, 2000}[rng.Intn(3)]
			drain = c.DrainTimeoutMs
		case x < 12:
			c.Kind = "pause"
			c.DrainTimeoutMs = []int{500, 1000}[rng.Intn(2)]
			c.MaxPauseMs = 2500
		case x < 13:
			c.Kind = "resume"
		case x < 14:
			c.Kind = "stop"
			c.DrainTimeoutMs = 1000
			c.Msg = "stopped"
		default:
			c.Kind = "remove"
		}
		if rng.Intn(2) == 0 {
			c.WaitMs = offGrid(rng, 10, 2500)
		}
		lane = append(lane, c)
	}
	p.Lanes = [][]Cmd{lane}
	nCli := 2 + rng.Intn(3)
	rn := 0
	for l := 0; l < nCli; l++ {
		var cl []Req
		for i := 0; i < 2+rng.Intn(4); i++ {
			rn++
			r := Req{ID: fmt.Sprintf("r%d", rn), Svc: "A", Host: "a.test", Path: "/x"}
			randReqKind(rng, &r, drain)
			if rng.Intn(3) > 0 {
				r.Cookie = []string{"vip", "alice", "bob", "x1"}[rng.Intn(4)]
			}
			if i == 0 {
				r.After = "c1"
				if story && rng.Intn(2) == 0 {
					r.After = "c3"
				}
				if longCookie {
					r.After, r.Cookie, r.Kind, r.HoldMs, r.WaitMs = "c3", "vip", "slow", offGrid(rng, 1200, 2600), 0
				}
			}
			if rng.Intn(2) == 0 {
				r.WaitMs = offGrid(rng, 10, 3000)
			}
			cl = append(cl, r)
		}
		p.Clients = append(p.Clients, cl)
	}
	return p
}

// GenOwn: several services race for overlapping host / path bindings from
// concurrent operator lanes (deploy, redeploy to other hosts, remove, rollout
// deploy), so that the check-and-set of an install is exercised under real
// overlap. Serves C05 (ownership) and C06/C18.
func GenOwn(seed int64, idx int, tier string) *Plan {
	rng := rand.New(rand.NewSource(seed*5000011 + int64(idx)))
	p := &Plan{Family: "own", Seed: seed*5000011 + int64(idx), Targets: map[string]TargetScript{}, QuantumMs: 100, SettleMs: 6000, Burst: true}
	p.Urgent = rng.Intn(3) > 0
	pickSched(rng, p)
	if idx%4 == 3 {
		p.Burst = false // fully controlled: validated against the design model spec/Own.tla
	}
	hostsets := [][]string{{"h.test"}, {"h.test", "g.test"}, {"g.test"}, {"*.test"}, {}}
	pathsets := [][]string{{}, {"/api"}, {"/", "/api"}}
	if idx%5 == 4 {
		// a long-running command on a service (redeploy or rollout deploy whose target needs a while to become healthy)
		// overlapped by "remove that service, give its host to another one": the late install must be refused
		hs := hostsets[rng.Intn(2)]
		slow := "rollout_deploy"
		if rng.Intn(3) == 0 {
			slow = "deploy"
		}
		p.Targets["t1"] = probeScriptHealthy(rng)
		p.Targets["t2"] = probeScriptAfterFailures(rng, 1+rng.Intn(2))
		p.Targets["t3"] = probeScriptHealthy(rng)
		c2 := Cmd{ID: "c2", Kind: slow, Svc: "A", Targets: []string{"t2"}, DeployTimeoutMs: 4500, DrainTimeoutMs: 500}
		if slow == "deploy" {
			c2.Hosts = hs
		}
		p.Lanes = [][]Cmd{
			{{ID: "c1", Kind: "deploy", Svc: "A", Hosts: hs, Targets: []string{"t1"}, DeployTimeoutMs: 2500, DrainTimeoutMs: 500}, c2},
			{{ID: "c3", Kind: "remove", Svc: "A", After: "c1", WaitMs: offGrid(rng, 150, 600)},
				{ID: "c4", Kind: "deploy", Svc: "B", Hosts: hs, Targets: []string{"t3"}, DeployTimeoutMs: 2500, DrainTimeoutMs: 500, WaitMs: offGrid(rng, 10, 300)}},
		}
		p.Clients = [][]Req{{{ID: "r1", Svc: "?", Host: "h.test", Path: "/", Kind: "plain", WaitMs: offGrid(rng, 3000, 5000)}}}
		return p
	}
	tn, cn := 0, 0
	names := []string{"A", "B", "C"}
	nLanes := 2 + rng.Intn(2)
	for l := 0; l < nLanes; l++ {
		var lane []Cmd
		n := 1 + rng.Intn(3)
		for i := 0; i < n; i++ {
			cn++
			c := Cmd{ID: fmt.Sprintf("c%d", cn), Svc: names[rng.Intn(len(names))]}
			if l < 3 && i == 0 {
				c.Svc = names[l] // each lane starts with its own service
			}
			switch x := rng.Intn(10); {
			case x < 7 || i == 0:
				c.Kind = "deploy"
				c.Hosts = hostsets[rng.Intn(len(hostsets))]
				if rng.Intn(2) == 0 {
					c.Hosts = hostsets[0] // make collisions likely
				}
				c.Paths = pathsets[rng.Intn(len(pathsets))]
				c.DeployTimeoutMs, c.DrainTimeoutMs = 2500, 500
				tn++
				t := fmt.Sprintf("t%d", tn)
				c.Targets = []string{t}
				if rng.Intn(3) == 0 {
					p.Targets[t] = probeScriptAfterFailures(rng, 1+rng.Intn(2))
				} else {
					p.Targets[t] = probeScriptHealthy(rng)
				}
			case x < 8:
				c.Kind = "remove"
			default:
				c.Kind = "rollout_deploy"
				c.DeployTimeoutMs, c.DrainTimeoutMs = 2500, 500
				tn++
				t := fmt.Sprintf("t%d", tn)
				c.Targets = []string{t}
				p.Targets[t] = probeScriptAfterFailures(rng, rng.Intn(3))
			}
			if rng.Intn(3) == 0 {
				c.WaitMs = offGrid(rng, 10, 1500)
			}
			lane = append(lane, c)
		}
		p.Lanes = append(p.Lanes, lane)
	}
	// a few requests so that traffic overlaps the commands
	var cl []Req
	for i := 0; i < 3; i++ {
		cl = append(cl, Req{ID: fmt.Sprintf("r%d", i+1), Svc: "?", Host: "h.test", Path: []string{"/", "/api/x"}[rng.Intn(2)], Kind: "plain", WaitMs: offGrid(rng, 10, 2000)})
	}
	p.Clients = [][]Req{cl}
	return p
}

// GenHealth: a service with 2-4 targets whose probes flap (all failing, staggered recovery) after deployment;
// one client sends requests one after the other at any point between probes. Serves C09.
func GenHealth(seed int64, idx int, tier string) *Plan {
	rng := rand.New(rand.NewSource(seed*3000017 + int64(idx)))
	p := &Plan{Family: "health", Seed: seed*3000017 + int64(idx), Targets: map[string]TargetScript{}, QuantumMs: 100, SettleMs: 4000}
	p.Urgent = true
	pickSched(rng, p)
	n := 2 + rng.Intn(3)
	var group []string
	for i := 0; i < n; i++ {
		name := fmt.Sprintf("t%d", i+1)
		group = append(group, name)
		s := TargetScript{Then: ProbeOutcome{Class: "ok"}}
		s.Probes = append(s.Probes, ProbeOutcome{Class: "ok"})
		for k := 0; k < 10; k++ {
			if rng.Intn(3) == 0 {
				s.Probes = append(s.Probes, failingProbe(rng))
			} else {
				s.Probes = append(s.Probes, ProbeOutcome{Class: "ok", DelayMs: rng.Intn(3) * 9})
			}
		}
		if rng.Intn(6) == 0 { // a target that goes down for good
			s.Then = failingProbe(rng)
		}
		p.Targets[name] = s
	}
	if rng.Intn(4) == 0 { // all targets fail together for a while
		k0 := 2 + rng.Intn(4)
		for _, name := range group {
			s := p.Targets[name]
			for k := k0; k < k0+2 && k < len(s.Probes); k++ {
				s.Probes[k] = ProbeOutcome{Class: "bad", Status: 503}
			}
			p.Targets[name] = s
		}
	}
	p.Lanes = [][]Cmd{{{ID: "c1", Kind: "deploy", Svc: "A", Hosts: []string{"a.test"}, Targets: group, DeployTimeoutMs: 2500, DrainTimeoutMs: 500}}}
	var cl []Req
	m := 20 + rng.Intn(30)
	for i := 0; i < m; i++ {
		r := Req{ID: fmt.Sprintf("r%d", i+1), Svc: "A", Host: "a.test", Path: "/x", Kind: "plain", Sync: true}
		if i == 0 {
			r.After = "c1"
		}
		if rng.Intn(3) > 0 {
			r.WaitMs = offGrid(rng, 10, 700)
		}
		cl = append(cl, r)
	}
	p.Clients = [][]Req{cl}
	// a second, unsynchronised client makes some claims concurrent
	if rng.Intn(3) == 0 {
		var c2 []Req
		for i := 0; i < 5; i++ {
			c2 = append(c2, Req{ID: fmt.Sprintf("q%d", i+1), Svc: "A", Host: "a.test", Path: "/x", Kind: "plain", After: "c1", WaitMs: offGrid(rng, 10, 2500)})
		}
		p.Clients = append(p.Clients, c2)
	}
	return p
}

// GenSnap: commands of every kind on two services, some overlapping from a second lane; the state file is
// observed at every step of every snapshot write and at every return. Serves C12.
func GenSnap(seed int64, idx int, tier string) *Plan {
	rng := rand.New(rand.NewSource(seed*11000027 + int64(idx)))
	p := &Plan{Family: "snap", Seed: seed*11000027 + int64(idx), Targets: map[string]TargetScript{}, QuantumMs: 100, SettleMs: 3000,
		SnapObs: true, Burst: true}
	p.Urgent = rng.Intn(2) == 0
	pickSched(rng, p)
	if rng.Intn(2) == 0 {
		p.SnapSpin = 300 + rng.Intn(1500)
		p.BurstEvery = 2
	}
	if idx%4 == 3 {
		// fully controlled scenarios: their internal events are validated against the design model of the
		// snapshot writer (spec/Snap.tla), which needs the steps of one goroutine to be adjacent in the log
		p.Burst, p.SnapSpin, p.BurstEvery = false, 0, 0
	}
	tn, cn := 0, 0
	newTarget := func() string {
		tn++
		t := fmt.Sprintf("t%d", tn)
		p.Targets[t] = probeScriptHealthy(rng)
		return t
	}
	mk := func(svc string) Cmd {
		cn++
		c := Cmd{ID: fmt.Sprintf("c%d", cn), Svc: svc}
		switch rng.Intn(9) {
		case 0, 1:
			c.Kind = "deploy"
			c.Hosts = []string{strings.ToLower(svc) + ".test"}
			c.Targets = []string{newTarget()}
			c.DeployTimeoutMs, c.DrainTimeoutMs = 2000, 500
		case 2:
			c.Kind = "rollout_deploy"
			c.Targets = []string{newTarget()}
			c.DeployTimeoutMs, c.DrainTimeoutMs = 2000, 500
		case 3:
			c.Kind, c.Pct, c.Allow = "rollout_set", rng.Intn(101), []string{"vip"}
		case 4:
			c.Kind = "rollout_stop"
		case 5:
			c.Kind, c.DrainTimeoutMs, c.MaxPauseMs = "pause", 500, 2000
		case 6:
			c.Kind, c.DrainTimeoutMs, c.Msg = "stop", 500, "back soon"
		case 7:
			c.Kind = "resume"
		default:
			c.Kind = "remove"
		}
		return c
	}
	first := func(svc string) Cmd {
		cn++
		return Cmd{ID: fmt.Sprintf("c%d", cn), Kind: "deploy", Svc: svc, Hosts: []string{strings.ToLower(svc) + ".test"}, Targets: []string{newTarget()},
			DeployTimeoutMs: 2000, DrainTimeoutMs: 500}
	}
	laneA := []Cmd{first("A")}
	laneB := []Cmd{first("B")}
	for i := 0; i < 2+rng.Intn(4); i++ {
		laneA = append(laneA, mk("A"))
	}
	for i := 0; i < 2+rng.Intn(4); i++ {
		c := mk("B")
		if rng.Intn(4) == 0 {
			c.Svc = "A" // commands on the same service from both lanes
		}
		laneB = append(laneB, c)
	}
	if rng.Intn(3) == 0 { // strictly sequential history: one lane
		p.Lanes = [][]Cmd{append(laneA, laneB...)}
	} else {
		p.Lanes = [][]Cmd{laneA, laneB}
	}
	return p
}

// GenStress: steady concurrent traffic (plain, cookie-bearing, upgraded, health-check requests from several clients)
// while one lane issues commands of every kind back to back. Meant for the uncontrolled runs under the race detector.
func GenStress(seed int64, idx int, tier string) *Plan {
	rng := rand.New(rand.NewSource(seed*13000051 + int64(idx)))
	p := &Plan{Family: "stress", Seed: seed*13000051 + int64(idx), Targets: map[string]TargetScript{}, QuantumMs: 100, SettleMs: 4000, Burst: true}
	p.Urgent = false
	pickSched(rng, p)
	tn := 0
	grp := func(n int) []string {
		var g []string
		for i := 0; i < n; i++ {
			tn++
			t := fmt.Sprintf("t%d", tn)
			p.Targets[t] = TargetScript{Then: ProbeOutcome{Class: "ok"}}
			if rng.Intn(4) == 0 {
				p.Targets[t] = TargetScript{Probes: []ProbeOutcome{{Class: "ok"}, {Class: "ok"}, failingProbe(rng)}, Then: ProbeOutcome{Class: "ok"}}
			}
			g = append(g, t)
		}
		return g
	}
	lane := []Cmd{
		{ID: "c1", Kind: "deploy", Svc: "A", Hosts: []string{"a.test"}, Targets: grp(2), DeployTimeoutMs: 2000, DrainTimeoutMs: 300},
		{ID: "c2", Kind: "rollout_deploy", Svc: "A", Targets: grp(2), DeployTimeoutMs: 2000, DrainTimeoutMs: 300},
		{ID: "c3", Kind: "rollout_set", Svc: "A", Pct: 50, Allow: []string{"vip"}},
	}
	for i := 0; i < 10+rng.Intn(8); i++ {
		c := Cmd{ID: fmt.Sprintf("c%d", i+4), Svc: "A", WaitMs: rng.Intn(60)}
		switch rng.Intn(9) {
		case 0:
			c.Kind, c.Pct = "rollout_set", rng.Intn(101)
		case 1:
			c.Kind = "rollout_stop"
		case 2:
			c.Kind, c.Targets, c.DeployTimeoutMs, c.DrainTimeoutMs = "rollout_deploy", grp(1+rng.Intn(2)), 2000, 300
		case 3:
			c.Kind, c.Hosts, c.Targets, c.DeployTimeoutMs, c.DrainTimeoutMs = "deploy", []string{"a.test"}, grp(1+rng.Intn(2)), 2000, 300
		case 4:
			c.Kind, c.DrainTimeoutMs, c.MaxPauseMs = "pause", 300, 500
		case 5:
			c.Kind, c.DrainTimeoutMs, c.Msg = "stop", 300, "x"
		case 6, 7:
			c.Kind = "resume"
		default:
			c.Kind = "list"
		}
		lane = append(lane, c)
	}
	p.Lanes = [][]Cmd{lane}
	if rng.Intn(2) == 0 { // a second operator
		p.Lanes = append(p.Lanes, []Cmd{{ID: "x1", Kind: "list", Svc: "A", After: "c1", WaitMs: rng.Intn(200)}, {ID: "x2", Kind: "rollout_set", Svc: "A", Pct: 10, WaitMs: rng.Intn(200)},
			{ID: "x3", Kind: "remove", Svc: "A", WaitMs: 400 + rng.Intn(600)}})
	}
	rn := 0
	for l := 0; l < 6; l++ {
		var cl []Req
		for i := 0; i < 12; i++ {
			rn++
			r := Req{ID: fmt.Sprintf("r%d", rn), Svc: "A", Host: "a.test", Path: "/x", Kind: "plain", WaitMs: rng.Intn(40)}
			switch rng.Intn(8) {
			case 0:
				r.Kind, r.HoldMs = "slow", 20+rng.Intn(300)
			case 1:
				r.Kind = "upgrade"
			case 2:
				r.HC, r.Path = true, "/up"
			}
			if rng.Intn(3) > 0 {
				r.Cookie = []string{"vip", "alice", "bob", "carol", "dave"}[rng.Intn(5)]
			}
			if i == 0 {
				r.After = "c3"
			}
			cl = append(cl, r)
		}
		p.Clients = append(p.Clients, cl)
	}
	return p
}
