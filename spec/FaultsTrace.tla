---------------------------- MODULE FaultsTrace ----------------------------
EXTENDS Faults, Sequences, TLC, Json, IOUtils
Log == ndJsonDeserialize(IOEnv.VERIF_TRACE)
VARIABLES l, viol, cov
vars == <<l, viol, cov>>
Init == l = 1 /\ viol = {} /\ cov = <<>> /\ TLCSet(1, 0)
If(b, S) == IF b /\ Cardinality(viol) < 100 THEN S ELSE {}
V(inv, subj, detail, e) == [inv |-> inv, subj |-> subj, sig |-> "", detail |-> ToString(detail), scn |-> e.scn, line |-> l]
Bump(S) == [i \in DOMAIN cov \cup S |-> (IF i \in DOMAIN cov THEN cov[i] ELSE 0) + (IF i \in S THEN 1 ELSE 0)]
SetOf(s) == {s[i] : i \in 1..Len(s)}

Step ==
  /\ l <= Len(Log)
  /\ LET e == Log[l] IN
     CASE e.ev = "fault_obs" ->
            LET x == Expected(e.fault, e.stall, e.timeout)
                at == AnsweredAt(e.fault, e.stall, e.timeout, e.sent)
                custom == SetOf(e.custom)
                good == IF x.cut THEN e.cut /\ ~e.complete
                        ELSE /\ e.status = x.status /\ ~e.cut /\ e.wellformed
                             /\ (x.status \in {502, 504} => e.page = Page(x.status, custom))
                             /\ e.at = at
            IN /\ viol' = viol
                  \cup If(~good, {V("C15_outcome", e.id, <<"fault", e.fault, "stall", e.stall, "timeout", e.timeout, "got", e.status, e.page, "cut", e.cut,
                                                            "complete", e.complete, "at", e.at, "expected", x.status, "at", at>>, e)})
                  \cup If(e.inflight # 0, {V("C15_residue", e.id, <<"requests still registered at the target after the fault", e.inflight>>, e)})
               /\ cov' = Bump({"C15_outcome"} \cup (IF e.fault \in Early THEN {"C15_early"} ELSE {}) \cup (IF e.fault \in Late THEN {"C15_late"} ELSE {})
                               \cup (IF e.fault = "silence" THEN {"C15_stall"} ELSE {}) \cup (IF custom # {} THEN {"C15_custom"} ELSE {}))
       [] e.ev = "fault_after" ->
            \* after a sequence of faults the proxy still serves and a drain does not wait for anything
            /\ viol' = viol \cup If(~(e.status = 200 /\ e.drain_ms = 0),
                                    {V("C15_residue", e.id, <<"after the faults: request got", e.status, "drain took", e.drain_ms>>, e)})
            /\ cov' = Bump({"C15_after"})
       [] e.ev = "harness_error" -> viol' = viol \cup {V("HARNESS", "", e.what, e)} /\ UNCHANGED cov
       [] OTHER -> UNCHANGED <<viol, cov>>
  /\ l' = l + 1
  /\ TLCSet(1, l)
Eof ==
  /\ l = Len(Log) + 1
  /\ JsonSerialize(IOEnv.VERIF_OUT, [lines |-> Len(Log), violations |-> viol, coverage |-> cov])
  /\ TLCSet(1, l)
  /\ l' = l + 1
  /\ UNCHANGED <<viol, cov>>
Next == Step \/ Eof
Spec == Init /\ [][Next]_vars
Accepted == TLCGet(1) = Len(Log) + 1
=============================================================================
