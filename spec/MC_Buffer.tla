----------------------------- MODULE MC_Buffer -----------------------------
(* every chunking of every body length, for every small limit setting *)
EXTENDS Buffer
CONSTANTS MaxMemMax, MaxBytesMax, BodyMax

VARIABLES ws, maxMem, maxBytes
Init == ws = <<>> /\ maxMem \in 0..MaxMemMax /\ maxBytes \in 0..MaxBytesMax
Next == /\ Sum(ws) < BodyMax /\ \E n \in 1..(BodyMax - Sum(ws)) : ws' = Append(ws, n)
        /\ UNCHANGED <<maxMem, maxBytes>>
Spec == Init /\ [][Next]_<<ws, maxMem, maxBytes>>

St == WriteAll(Fresh, ws, maxMem, maxBytes)
Inv_Mem == MemBounded(St, maxMem)
Inv_Conserved == Conserved(St, ws)
Inv_Overflow == Overflows(St, ws, maxBytes)
Inv_SpillOnlyWhenNeeded == St.spilled => Sum(ws) > maxMem
=============================================================================
