SPECIFICATION Spec
CONSTANTS
  Targets <- T2
  Order <- Order2
  MaxProbes = 3
  MaxClaims = 2
  BuildUnderLock = TRUE
  NotifyAlways = FALSE
  CoalesceRebuilds = FALSE
INVARIANTS
  TypeOK
  R_Settled
  R_Claim
  R_NoneJustified
  R_Mutex
  R_ReadsFresh
CHECK_DEADLOCK FALSE
