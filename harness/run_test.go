package harness

import (
	"encoding/json"
	"fmt"
	"os"
	"path/filepath"
	"sort"
	"strconv"
	"testing"
	"time"
)

func envInt(k string, d int) int {
	if v, err := strconv.Atoi(os.Getenv(k)); err == nil {
		return v
	}
	return d
}

func envStr(k, d string) string {
	if v := os.Getenv(k); v != "" {
		return v
	}
	return d
}

type genFunc func(seed int64, idx int, tier string) *Plan

var generators = map[string]genFunc{
	"deploy":    GenDeploy,
	"pause":     GenPause,
	"rollout":   GenRollout,
	"own":       GenOwn,
	"health":    GenHealth,
	"snap":      GenSnap,
	"stress":    GenStress,
	"duelown":   GenDuelOwn,
	"dueldrain": GenDuelDrain,
	"duelprobe": GenDuelProbe,
	"duelstop":  GenDuelStop,
}

type runSummary struct {
	Family    string         `json:"family"`
	Scenarios int            `json:"scenarios"`
	Events    map[string]int `json:"events"`
	Hits      int            `json:"hits"`
	Misses    int            `json:"misses"`
	WallS     float64        `json:"wall_s"`
}

// TestRun is the single entry point of the executor.
//
//	VERIF_FAMILY  generator name (or "plans" to replay plan files)
//	VERIF_N       number of generated scenarios
//	VERIF_FIRST   index of the first generated scenario
//	VERIF_SEED    seed
//	VERIF_TIER    quick | thorough
//	VERIF_OUT     output directory: trace.ndjson, plans/<scn>.json, summary.json
//	VERIF_PLANS   directory with plan files to run (family "plans")
func TestRun(t *testing.T) {
	out := os.Getenv("VERIF_OUT")
	if out == "" {
		t.Skip("VERIF_OUT not set")
	}
	family := envStr("VERIF_FAMILY", "deploy")
	n := envInt("VERIF_N", 10)
	first := envInt("VERIF_FIRST", 0)
	seed := int64(envInt("VERIF_SEED", 1))
	tier := envStr("VERIF_TIER", "quick")
	savePlans := envInt("VERIF_SAVE_PLANS", 1) == 1

	os.MkdirAll(filepath.Join(out, "plans"), 0o755)
	scratch := filepath.Join(out, "scratch")
	os.MkdirAll(scratch, 0o755)
	f, err := os.Create(filepath.Join(out, "trace.ndjson"))
	if err != nil {
		t.Fatal(err)
	}
	defer f.Close()
	rec := NewRecorder(f)
	start := time.Now()
	sum := runSummary{Family: family}

	var plans []*Plan
	var ids []int
	if family == "plans" {
		dir := os.Getenv("VERIF_PLANS")
		files, _ := filepath.Glob(filepath.Join(dir, "*.json"))
		sort.Strings(files)
		for i, fn := range files {
			b, err := os.ReadFile(fn)
			if err != nil {
				t.Fatal(err)
			}
			var p Plan
			if err := json.Unmarshal(b, &p); err != nil {
				t.Fatalf("%s: %v", fn, err)
			}
			plans = append(plans, &p)
			ids = append(ids, first+i)
		}
	} else {
		gen := generators[family]
		if gen == nil {
			t.Fatalf("unknown family %q", family)
		}
		for i := 0; i < n; i++ {
			p := gen(seed, first+i, tier)
			if s := os.Getenv("VERIF_SCHED"); s != "" {
				p.Sched = s // e.g. "free": no controller, the real scheduler decides (used under the race detector)
			}
			plans = append(plans, p)
			ids = append(ids, first+i)
		}
	}

	if family == "snap" || os.Getenv("VERIF_POLL") == "1" {
		stop := make(chan struct{})
		defer close(stop)
		StartStateFileSampler(stop) // outside any bubble: samples the state file on the real clock (C12)
	}
	for i, p := range plans {
		scn := ids[i]
		if savePlans {
			// written before the run so that a crash of the process still leaves the plan behind
			b, _ := json.Marshal(p)
			os.WriteFile(filepath.Join(out, "plans", fmt.Sprintf("%d.json", scn)), b, 0o644)
			os.WriteFile(filepath.Join(out, "current"), []byte(strconv.Itoa(scn)), 0o644)
		}
		decisions, hits, misses := RunScenario(t, scn, p, rec, scratch)
		sum.Hits += hits
		sum.Misses += misses
		sum.Scenarios++
		if savePlans {
			q := *p
			if q.Sched != "replay" && q.Sched != "guided" {
				q.Decisions = decisions
			}
			b, _ := json.Marshal(&q)
			os.WriteFile(filepath.Join(out, "plans", fmt.Sprintf("%d.json", scn)), b, 0o644)
		}
	}
	rec.Flush()
	sum.Events = rec.Counts
	sum.WallS = time.Since(start).Seconds()
	b, _ := json.MarshalIndent(&sum, "", " ")
	os.WriteFile(filepath.Join(out, "summary.json"), b, 0o644)
	os.RemoveAll(scratch)
}

// TestRouting runs the sequential plans (JSON RoutingPlan files in VERIF_PLANS).
func TestRouting(t *testing.T) {
	out := os.Getenv("VERIF_OUT")
	if out == "" {
		t.Skip("VERIF_OUT not set")
	}
	first := envInt("VERIF_FIRST", 0)
	scratch := filepath.Join(out, "scratch")
	os.MkdirAll(scratch, 0o755)
	f, err := os.Create(filepath.Join(out, "trace.ndjson"))
	if err != nil {
		t.Fatal(err)
	}
	defer f.Close()
	rec := NewRecorder(f)
	start := time.Now()
	files, _ := filepath.Glob(filepath.Join(os.Getenv("VERIF_PLANS"), "*.json"))
	sort.Strings(files)
	sum := runSummary{Family: "routing"}
	cert, key, err := writeTestCert(scratch)
	if err != nil {
		t.Fatal(err)
	}
	for i, fn := range files {
		b, err := os.ReadFile(fn)
		if err != nil {
			t.Fatal(err)
		}
		var p RoutingPlan
		if err := json.Unmarshal(b, &p); err != nil {
			t.Fatalf("%s: %v", fn, err)
		}
		os.WriteFile(filepath.Join(out, "current"), []byte(filepath.Base(fn)), 0o644)
		RunRoutingPlan(t, first+i, &p, rec, scratch, cert, key)
		sum.Scenarios++
	}
	rec.Flush()
	sum.Events = rec.Counts
	sum.WallS = time.Since(start).Seconds()
	b, _ := json.MarshalIndent(&sum, "", " ")
	os.WriteFile(filepath.Join(out, "summary.json"), b, 0o644)
	os.RemoveAll(scratch)
}

// TestRolloutFn: the rollout decision for many cookie values at every percentage (C10).
func TestRolloutFn(t *testing.T) {
	out := os.Getenv("VERIF_OUT")
	if out == "" {
		t.Skip("VERIF_OUT not set")
	}
	scratch := filepath.Join(out, "scratch")
	os.MkdirAll(scratch, 0o755)
	f, err := os.Create(filepath.Join(out, "trace.ndjson"))
	if err != nil {
		t.Fatal(err)
	}
	defer f.Close()
	rec := NewRecorder(f)
	start := time.Now()
	sum := runSummary{Family: "rolloutfn"}
	RunRollout(t, envInt("VERIF_FIRST", 0), int64(envInt("VERIF_SEED", 1)), envInt("VERIF_N", 200), envInt("VERIF_EXTREME", 2000000), rec, scratch)
	sum.Scenarios = 1
	rec.Flush()
	sum.Events = rec.Counts
	sum.WallS = time.Since(start).Seconds()
	b, _ := json.MarshalIndent(&sum, "", " ")
	os.WriteFile(filepath.Join(out, "summary.json"), b, 0o644)
	os.RemoveAll(scratch)
}

// TestReqSuite: request-level suites (VERIF_SUITE = forward | buffer | faults | accesslog).
func TestReqSuite(t *testing.T) {
	out := os.Getenv("VERIF_OUT")
	if out == "" {
		t.Skip("VERIF_OUT not set")
	}
	scratch := filepath.Join(out, "scratch")
	os.MkdirAll(scratch, 0o755)
	f, err := os.Create(filepath.Join(out, "trace.ndjson"))
	if err != nil {
		t.Fatal(err)
	}
	defer f.Close()
	rec := NewRecorder(f)
	start := time.Now()
	suite := envStr("VERIF_SUITE", "forward")
	sum := runSummary{Family: suite}
	seed, n := int64(envInt("VERIF_SEED", 1)), envInt("VERIF_N", 300)
	switch suite {
	case "forward":
		RunForward(t, 0, seed, n, rec, scratch)
	case "buffer":
		RunBuffer(t, 0, seed, n, rec, scratch)
	case "faults":
		RunFaults(t, 0, seed, n, rec, scratch)
	case "accesslog":
		cert, key, err := writeTestCert(scratch)
		if err != nil {
			t.Fatal(err)
		}
		RunAccessLog(t, 0, seed, n, rec, scratch, cert, key)
	default:
		t.Fatalf("unknown suite %q", suite)
	}
	sum.Scenarios = 1
	rec.Flush()
	sum.Events = rec.Counts
	sum.WallS = time.Since(start).Seconds()
	b, _ := json.MarshalIndent(&sum, "", " ")
	os.WriteFile(filepath.Join(out, "summary.json"), b, 0o644)
	os.RemoveAll(scratch)
}

// TestWriteCert writes a self-signed certificate and key into VERIF_OUT (used by the CLI driver).
func TestWriteCert(t *testing.T) {
	out := os.Getenv("VERIF_OUT")
	if out == "" {
		t.Skip("VERIF_OUT not set")
	}
	if _, _, err := writeTestCert(out); err != nil {
		t.Fatal(err)
	}
}
