SPECIFICATION Spec
CONSTANTS
  Cmds <- C6
  Kind <- Kind6
  Name <- Name6
  Bind <- Bind6
  MayFail = TRUE
  AtomicInstall = TRUE
  CheckOnRollout = FALSE
  DisposeOnConflict = TRUE
INVARIANTS
  O_Ownership
CHECK_DEADLOCK TRUE
