#!/usr/bin/env python3
"""Entry point of every registered check.

  python3 tools/check.py Cxx [--tier quick|thorough] [--replay <schedule.json>] [--no-evidence]

exit 0: the property held on everything explored (known findings are printed)
exit 1: 'VIOLATION property=<id> replay=<path>' for a violation not listed in KNOWN_FINDINGS.txt
exit 2: inconclusive (build failure, time-out, trace not accepted, model drift, vacuity) - never a violation
"""
import argparse, json, os, subprocess, shutil, sys, time, glob, collections, re

sys.path.insert(0, os.path.dirname(os.path.abspath(__file__)))
import vlib, schedules
from vlib import Inconclusive

# ---- concurrency families: design model + executor + ObsTrace --------------------

# design-model configurations per family: cfgs per tier, witness goals (goal, cfg in which it is reachable),
# regression variants (reverting a repair must break the design-level property again; the counterexample is
# replayed into the code on every run) and no-exemption runs (the known findings must still be reachable).
MODELS = {
    "deploy": dict(module="MC_Deploy.tla",
                   quick=["MC_Deploy_quick.cfg", "MC_DeployBad_quick.cfg"],
                   thorough=["MC_Deploy_thorough.cfg", "MC_Deploy3_thorough.cfg", "MC_DeployBad_thorough.cfg"],
                   sim_cfg="MC_Deploy_quick.cfg",
                   witnesses=[(w, "MC_Deploy_quick.cfg") for w in
                              ["W_ClaimWhileDraining", "W_CutAtDeadline", "W_ServedByRetired", "W_UpgradeClosed", "W_FailedDeploy"]],
                   variants=[dict(name="pinned-F1", cfg="MC_Deploy_quick.cfg", constants={"SignalAfterNotify": "FALSE"},
                                  invariants=["D_C02"])],
                   no_exempt=[("D_C02", "MC_Deploy_quick.cfg"), ("D_C03_b", "MC_Deploy_quick.cfg")],
                   live=dict(quick=["MC_Live_deploy.cfg"], thorough=["MC_Live_deploy.cfg", "MC_Live_deploy_thorough.cfg"], control="MC_Live_control.cfg")),
    "health": dict(module="MC_Deploy.tla", quick=["MC_DeployBad_quick.cfg"], thorough=["MC_DeployBad_thorough.cfg"], sim_cfg="MC_DeployBad_quick.cfg",
                   witnesses=[], variants=[], no_exempt=[]),
    "pause": dict(module="MC_Pause.tla",
                  quick=["MC_Pause%s.cfg" % x for x in "ABCDEF"],
                  thorough=["MC_Pause%s.cfg" % x for x in "ABCDEF"],
                  thorough_constants={"Kinds": '{"plain", "forever", "upgrade"}'},
                  sim_cfg="MC_PauseB.cfg",
                  witnesses=[("W_HeldThenServed", "MC_PauseA.cfg"), ("W_HeldThenStopped", "MC_PauseB.cfg"),
                             ("W_GateClaim", "MC_PauseA.cfg"), ("W_CutAtDeadline", "MC_PauseA.cfg")],
                  variants=[],
                  no_exempt=[("D_C07_f", "MC_PauseA.cfg"), ("D_C07_b", "MC_PauseD.cfg"), ("D_C03_p", "MC_PauseC.cfg")],
                  live=dict(quick=["MC_Live_pauseB.cfg", "MC_Live_pauseD.cfg"], thorough=["MC_Live_pauseB.cfg", "MC_Live_pauseD.cfg", "MC_Live_pauseB_thorough.cfg"])),
    # rollout slots, split and remove in the design model
    "rollout": dict(module="MC_Rollout.tla", quick=["MC_RolloutA.cfg", "MC_RolloutC.cfg"],
                    thorough=["MC_RolloutA.cfg", "MC_RolloutB.cfg", "MC_RolloutC.cfg", "MC_RolloutD.cfg"],
                    witnesses=[("W_ServedByRollout", "MC_RolloutA.cfg")], variants=[], no_exempt=[("D_C02", "MC_RolloutC.cfg")],
                    sim_cfg="MC_RolloutA.cfg"),
    # the snapshot writer (C12): no schedules are derived from it; controls = variants of the code before repair F5
    "snap": dict(module="MC_Snap.tla", quick=["MC_Snap_quick.cfg"], thorough=["MC_Snap_quick.cfg", "MC_Snap_thorough.cfg"],
                 controls=[("MC_Snap_pinned_complete.cfg", "S_Complete"), ("MC_Snap_pinned_current.cfg", "S_Current"),
                           ("MC_Snap_nolock_window.cfg", "S_Current")],
                 proofs=["SnapProof.tla"],
                 witnesses=[], variants=[], no_exempt=[], sim_cfg=None),
    # the service table under racing commands (C05, C06, probe part of C17)
    "own": dict(module="MC_Own.tla", quick=["MC_Own_quick.cfg", "MC_Own_rollout.cfg"],
                thorough=["MC_Own_quick.cfg", "MC_Own_rollout.cfg", "MC_Own_thorough.cfg"],
                controls=[("MC_Own_nonatomic.cfg", "O_Ownership"), ("MC_Own_nodispose.cfg", "O_FailedLeavesNothing"),
                          ("MC_Own_norollcheck.cfg", "O_Ownership")],
                proofs=["OwnProof.tla"],
                witnesses=[], variants=[], no_exempt=[], sim_cfg=None),
    # the rotation of one load balancer under concurrent probe loops, the rebuild opened up into its reads (C09);
    # controls = the design twin of seeded change C09-2 (reads before lb.lock)
    "duelprobe": dict(module="MC_Rot.tla", quick=["MC_Rot_quick.cfg", "MC_Rot_always.cfg"],
                      thorough=["MC_Rot_quick.cfg", "MC_Rot_always.cfg", "MC_Rot_thorough.cfg"],
                      controls=[("MC_Rot_unlocked_settled.cfg", "R_Settled"), ("MC_Rot_unlocked_claim.cfg", "R_Claim"),
                                ("MC_Rot_unlocked_none.cfg", "R_NoneJustified"), ("MC_Rot_coalesce_settled.cfg", "R_Settled")],
                      live=dict(quick=["MC_Rot_live.cfg"], thorough=["MC_Rot_live.cfg"]),
                      witnesses=[], variants=[], no_exempt=[], sim_cfg=None),
}

CONC = {
    "C01": dict(families=["deploy", "rollout"], invs=["C01_a", "C01_b", "C01_c"], dinvs=["D_C01_a", "D_C01_b", "D_C01_c"]),
    "C02": dict(families=["deploy"], invs=["C02"], dinvs=["D_C02"]),
    "C03": dict(families=["deploy", "pause", "rollout", "dueldrain"], invs=["C03_a", "C03_b", "C03_c"], dinvs=["D_C03_a", "D_C03_b", "D_C03_p"]),
    "C05": dict(families=["own", "duelown"], invs=["C05_a"], dinvs=["O_Ownership", "O_SomeoneWins", "A_RefusalJustified"]),
    "C06": dict(families=["own"], invs=["C06_b", "C06_c"], dinvs=["O_FailedLeavesNothing", "A_FailChangesNothing", "O_NoLeak"]),
    "C07": dict(families=["pause", "duelstop"], invs=["C07_a", "C07_b", "C07_c", "C07_d", "C07_e", "C07_f"], dinvs=["D_C07_a", "D_C07_b", "D_C07_f"]),
    "C08": dict(families=["pause"], invs=["C08", "C08_fwd"], dinvs=["D_C08", "D_C07_a"]),
    "C09": dict(families=["health", "rollout", "duelprobe"], invs=["C09_a", "C09_b", "C09_c", "C09_d"],
                dinvs=["D_C09", "R_Settled", "R_Claim", "R_NoneJustified", "R_ReadsFresh", "L_Settles"]),
    "C12": dict(families=["snap"], invs=["C12_a", "C12_b"], dinvs=["S_Complete", "S_Window", "S_Current", "S_Mutex"]),
    "C17": dict(families=["deploy", "pause", "rollout"], invs=["C17_a", "C17_b", "C17_c"], dinvs=["D_C17_c"]),
}

# the duel families (harness/gen_duel.go) are a few milliseconds each
SIZES = {"quick": {"deploy": 160, "pause": 160, "rollout": 128, "own": 240, "health": 160, "snap": 240,
                   "duelown": 3000, "dueldrain": 3000, "duelprobe": 2000, "duelstop": 1500},
         "thorough": {"deploy": 2000, "pause": 2000, "rollout": 1500, "own": 2000, "health": 1500, "snap": 2000,
                      "duelown": 30000, "dueldrain": 30000, "duelprobe": 20000, "duelstop": 15000}}
SIMS = {"quick": 30, "thorough": 500}
MC_TIMEOUT = {"quick": 240, "thorough": 2400}
AUX_TIMEOUT = {"quick": 300, "thorough": 1500}   # witness / no-exemption / variant / control / simulate runs (short, but the machine is busy)
MC_HEAP_MB = {"quick": 4096, "thorough": 8192}     # exhaustive runs; every other TLC process gets 2 GB (3 GB for trace validation)
DTRACE_LIMIT = {"quick": 96, "thorough": None}   # scenarios validated against the design model per run


def design_runs(family, tier, seed):
    """Start every TLC run on the design model for this family; returns a list of job dicts."""
    mdl = MODELS.get(family)
    if not mdl:
        return []
    jobs = []
    wd = vlib.spec_copy(family)
    cfgs = [c for c in mdl[tier] if os.path.exists(os.path.join(wd, c))] or mdl["quick"]
    extra_const = mdl.get("thorough_constants") if tier == "thorough" else None
    for cfg in cfgs:
        name = cfg
        if extra_const:
            name = vlib.cfg_with(wd, cfg, "T_" + cfg, constants=extra_const)
        p = vlib.start_tlc(wd, mdl["module"], name, workers=max(2, vlib.NCPU // 2 // len(cfgs)), timeout=MC_TIMEOUT[tier],
                           heap_mb=MC_HEAP_MB[tier])
        jobs.append(dict(kind="mc", cfg=cfg, proc=p, wd=wd))
    for w, wcfg in mdl["witnesses"]:
        wd2 = vlib.spec_copy(family + w)
        name = vlib.cfg_with(wd2, wcfg, "W_%s.cfg" % w, invariants=[w], constants={"AllowBad": "TRUE"} if family == "deploy" else None)
        jobs.append(dict(kind="witness", goal=w, cfg=wcfg, proc=vlib.start_tlc(wd2, mdl["module"], name, workers=2, timeout=AUX_TIMEOUT[tier]), wd=wd2))
    for var in mdl["variants"]:
        wd2 = vlib.spec_copy(family + var["name"])
        name = vlib.cfg_with(wd2, var["cfg"], "V_%s.cfg" % var["name"], invariants=var["invariants"], constants=var["constants"])
        jobs.append(dict(kind="variant", goal=var["name"], cfg=var["cfg"], proc=vlib.start_tlc(wd2, mdl["module"], name, workers=2, timeout=AUX_TIMEOUT[tier]), wd=wd2))
    for inv, ncfg in mdl.get("no_exempt", []):
        wd2 = vlib.spec_copy(family + "ne" + inv)
        name = vlib.cfg_with(wd2, ncfg, "NE_%s.cfg" % inv, invariants=[inv], constants={"Exempt": "FALSE"})
        jobs.append(dict(kind="noexempt", goal=inv, cfg=ncfg, proc=vlib.start_tlc(wd2, mdl["module"], name, workers=2, timeout=AUX_TIMEOUT[tier]), wd=wd2))
    # liveness under fairness (no symmetry, no state constraint), and its negative control
    live = mdl.get("live", {})
    for lcfg in live.get(tier, []):
        wd2 = vlib.spec_copy(family + "live" + lcfg)
        jobs.append(dict(kind="live", goal=lcfg, cfg=lcfg, proc=vlib.start_tlc(wd2, mdl["module"], lcfg, workers=4, timeout=MC_TIMEOUT[tier], heap_mb=MC_HEAP_MB[tier]), wd=wd2))
    if live.get("control"):
        wd2 = vlib.spec_copy(family + "livectl")
        jobs.append(dict(kind="live-control", goal=live["control"], cfg=live["control"],
                         proc=vlib.start_tlc(wd2, mdl["module"], live["control"], workers=2, timeout=AUX_TIMEOUT[tier]), wd=wd2))
    for ccfg, inv in mdl.get("controls", []):
        wd2 = vlib.spec_copy(family + "ctl" + ccfg)
        jobs.append(dict(kind="control", goal=inv, cfg=ccfg, proc=vlib.start_tlc(wd2, mdl["module"], ccfg, workers=2, timeout=AUX_TIMEOUT[tier]), wd=wd2))
    for pf in mdl.get("proofs", []):
        # TLAPS: the invariant is inductive for every value of the constants (unbounded counterpart of the TLC runs)
        wd2 = vlib.spec_copy(family + "proof")
        pr = subprocess.Popen(["timeout", "600", "tlapm", "--threads", str(max(2, vlib.NCPU // 2)), "--cleanfp", pf], cwd=wd2,
                              stdout=subprocess.PIPE, stderr=subprocess.STDOUT, text=True)
        pr._md = os.path.join(wd2, ".tlacache")
        jobs.append(dict(kind="proof", goal=pf, cfg=pf, proc=pr, wd=wd2))
    if not mdl.get("sim_cfg"):
        return jobs
    # random behaviours of the design model
    wd3 = vlib.spec_copy(family + "sim")
    simp = os.path.join(wd3, "sim")
    p = vlib.start_tlc(wd3, mdl["module"], mdl["sim_cfg"], workers=1, timeout=AUX_TIMEOUT[tier],
                       extra=["-simulate", "file=%s,num=%d" % (simp, SIMS[tier]), "-depth", "70", "-seed", str(seed)])
    jobs.append(dict(kind="sim", cfg=mdl["sim_cfg"], proc=p, wd=wd3, prefix=simp))
    return jobs


def collect_design(jobs, family):
    """Wait for the TLC jobs; returns (model-check summary, guided plans, notes)."""
    mc, plans, notes = [], [], []
    for j in jobs:
        rc, out = vlib.finish_tlc(j["proc"])
        verdict = vlib.tlc_verdict(rc, out)
        if j["kind"] == "proof":
            m = re.search(r"All (\d+) obligations? proved", out)
            if not m:
                raise Inconclusive("TLAPS proof %s does not go through:\n%s" % (j["goal"], out[-2500:]))
            mc.append(dict(cfg=j["cfg"], verdict="proved by TLAPS for all values of the constants (%s obligations)" % m.group(1), states=0, transitions=0))
            continue
        if j["kind"] == "control":
            if verdict != "violated:" + j["goal"]:
                raise Inconclusive("control %s: the variant of the design model must violate %s, got %s" % (j["cfg"], j["goal"], verdict))
            notes.append(("control", j["cfg"], verdict))
            continue
        desc = schedules.load_desc(os.path.join(vlib.SPEC, j["cfg"])) if os.path.exists(os.path.join(vlib.SPEC, j["cfg"].replace(".cfg", ".json"))) else None
        if j["kind"] == "mc":
            st, gen = vlib.tlc_stats(out)
            mc.append(dict(cfg=j["cfg"], verdict=verdict, states=st, transitions=gen))
            if (verdict.startswith("violated") or verdict == "deadlock") and desc is None:
                raise Inconclusive("the design model %s fails: %s\n%s" % (j["cfg"], verdict, out[-2000:]))
            if verdict.startswith("violated") or verdict == "deadlock":
                labels = schedules.parse_labels(out)
                plans.append(schedules.plan_from_labels(labels, desc, note="design-model counterexample %s %s" % (j["cfg"], verdict)))
                notes.append(("mc-counterexample", j["cfg"], verdict))
            elif verdict != "ok":
                raise Inconclusive("TLC on %s: %s\n%s" % (j["cfg"], verdict, out[-1500:]))
        elif j["kind"] in ("witness", "variant", "noexempt"):
            if verdict.startswith("violated"):
                labels = schedules.parse_labels(out)
                plans.append(schedules.plan_from_labels(labels, desc, note="%s %s" % (j["kind"], j["goal"])))
            elif verdict == "ok":
                notes.append((j["kind"] + "-unreachable", j["goal"], verdict))
            else:
                raise Inconclusive("TLC %s %s: %s\n%s" % (j["kind"], j["goal"], verdict, out[-1500:]))
        elif j["kind"] == "live":
            st, gen = vlib.tlc_stats(out)
            if verdict != "ok":
                raise Inconclusive("liveness of the design model (%s): %s\n%s" % (j["cfg"], verdict, out[-2500:]))
            mc.append(dict(cfg=j["cfg"], verdict="ok (liveness under fairness)", states=st, transitions=gen))
        elif j["kind"] == "live-control":
            if not verdict.startswith("temporal"):
                raise Inconclusive("liveness control %s: expected a counterexample without the drain deadline, got %s" % (j["cfg"], verdict))
            notes.append(("live-control", j["cfg"], verdict))
        elif j["kind"] == "sim":
            files = sorted(glob.glob(j["prefix"] + "_*"))
            if not files:
                raise Inconclusive("TLC simulate produced no behaviours:\n" + out[-1500:])
            for f in files:
                labels = schedules.parse_labels(open(f).read())
                plans.append(schedules.plan_from_labels(labels, desc, note="simulate " + os.path.basename(f)))
    for j in jobs:
        shutil.rmtree(j["wd"], ignore_errors=True)
    return mc, plans, notes


def run_conc(prop, tier, seed, replay=None):
    t0 = time.time()
    spec = CONC[prop]
    known = vlib.load_known()
    binary = vlib.build_harness()
    n_scn, events = 0, collections.Counter()
    mc, notes, guided_n = [], [], 0
    if replay:
        pdir = os.path.join(vlib.scratch(), "replay-plans")
        os.makedirs(pdir, exist_ok=True)
        obj = json.load(open(replay))
        plan = obj["plan"]
        if plan.get("sched") not in ("guided",):
            plan["sched"] = "replay"
        json.dump(plan, open(os.path.join(pdir, "0.json"), "w"))
        outs = vlib.run_executor(binary, "plans", 1, seed, tier, plans_dir=pdir)
    else:
        jobs = []
        for fam in spec["families"]:
            jobs += [(fam, design_runs(fam, tier, seed))]
        outs = []
        for fam in spec["families"]:
            outs += vlib.run_executor(binary, fam, SIZES[tier][fam], seed, tier, procs=vlib.NCPU // 2)
        for fam, js in jobs:
            m, plans, nts = collect_design(js, fam)
            mc += m
            notes += nts
            # guided plans: split over a few processes
            per = max(1, (len(plans) + 7) // 8)
            for i in range(0, len(plans), per):
                pdir = os.path.join(vlib.scratch(), "guided-%s-%d" % (fam, i))
                os.makedirs(pdir, exist_ok=True)
                for k, pl in enumerate(plans[i:i + per]):
                    json.dump(pl, open(os.path.join(pdir, "%05d.json" % k), "w"))
                outs += vlib.run_executor(binary, "plans", len(plans[i:i + per]), seed, tier, plans_dir=pdir,
                                          extra_env={"VERIF_FIRST": str(100000 + i)})
            guided_n += len(plans)
    traces = []
    guided_stats = collections.Counter()
    for out in outs:
        tf = os.path.join(out, "obs.ndjson")
        vlib.filter_trace(os.path.join(out, "trace.ndjson"), tf)
        traces.append(tf)
        s = json.load(open(os.path.join(out, "summary.json")))
        n_scn += s["scenarios"]
        events.update(s["events"])
        guided_stats["hits"] += s.get("hits", 0)
        guided_stats["misses"] += s.get("misses", 0)
    res = vlib.validate_traces(traces)
    # design-level conformance: the internal hook events of the same runs must be a behaviour of spec/Proxy.tla
    import dtrace
    dres = dtrace.validate([os.path.join(o, "trace.ndjson") for o in outs], limit=DTRACE_LIMIT[tier],
                           kind={"snap": "snap", "own": "own"}.get(spec["families"][0], "proxy"))
    shutil.rmtree(dres.pop("wd"), ignore_errors=True)
    if replay:
        os.makedirs(os.path.join(vlib.VERIF, "out", prop), exist_ok=True)
        shutil.copy(os.path.join(outs[0], "trace.ndjson"), os.path.join(vlib.VERIF, "out", prop, "replay.trace.ndjson"))

    harness = [v for v in res["violations"] if v["inv"] == "HARNESS"]
    if harness:
        raise Inconclusive("harness-level problem in trace: %r" % harness[:3])

    mine = [v for v in res["violations"] if v["inv"] in spec["invs"]]
    others = collections.Counter(v["inv"] for v in res["violations"] if v["inv"] not in spec["invs"])
    listed, unlisted = collections.OrderedDict(), []
    for v in mine:
        k = vlib.match_known(prop, v, known)
        if k:
            listed.setdefault(k["id"], [k, 0])[1] += 1
        else:
            unlisted.append(v)
    for kid, (k, cnt) in listed.items():
        print("KNOWN-FINDING: %s (%d instance(s) this run)" % (k["text"].split(" ", 1)[1], cnt))
    rc = 0
    for i, v in enumerate(unlisted[:20]):
        out = os.path.dirname(v["trace"])
        pf = os.path.join(out, "plans", "%d.json" % v["scn"])
        plan = json.load(open(pf)) if os.path.exists(pf) else None
        observed = [json.loads(l) for l in open(v["trace"]) if '"scn":%d,' % v["scn"] in l][:600]
        path = vlib.save_replay(prop, 100 + i, {"property": prop, "violation": {k: v[k] for k in v if k != "trace"}, "plan": plan,
                                                "observed_trace": observed})
        print("VIOLATION property=%s replay=%s" % (prop, path))
        print("  %s subject=%s scenario=%s: %s" % (v["inv"], v["subj"], v["scn"], v["detail"]))
        rc = 1
    if len(unlisted) > 20:
        print("  ... and %d more violation instance(s)" % (len(unlisted) - 20))

    # a design-model counterexample that the code did not reproduce is model drift, not a violation
    drift = [n for n in notes if n[0] == "mc-counterexample"]
    nontrivial = sum(res["coverage"].get(i, 0) for i in spec["invs"])
    samples = []
    for out in outs[:1]:
        with open(os.path.join(out, "obs.ndjson")) as f:
            for j, line in enumerate(f):
                if j >= 12:
                    break
                samples.append(json.loads(line))
    states = sum(m["states"] for m in mc)
    trans = sum(m["transitions"] for m in mc)
    cov = {
        "states": max(1, states),
        "transitions": max(1, trans),
        "traces_validated_against_impl": n_scn,
        "evaluations": n_scn,
        "distinct_nontrivial": nontrivial,
        "rule": "states/transitions: TLC's exhaustive check of the design model spec/Proxy.tla against its D_* invariants on the "
                "bounded configurations listed under design_model. One evaluation = one scenario executed on the real proxy under "
                "the controller (random/PCT/freeze schedules; schedules derived from TLC behaviours of the design model: "
                "witness goals, pinned-variant counterexamples, random simulation; duels: goroutines collected at chosen hooks, "
                "released together and lined up on the real clock) and validated by TLC against spec/ObsTrace.tla; "
                "distinct_nontrivial = sum over this property's invariants of the number of distinct scenarios in which the "
                "invariant's antecedent was satisfied at least once (counted by the trace spec itself)",
        "design_model": mc,
        "design_invariants": spec.get("dinvs", []),
        "design_notes": [list(n) for n in notes],
        "guided_schedules": guided_n,
        "guided_decisions": dict(guided_stats),
        "antecedent_hits": {i: res["coverage"].get(i, 0) for i in sorted(res["coverage"])},
        "trace_events_validated": res["lines"],
        "events_recorded": dict(events),
        "samples": samples,
        "known_findings_printed": list(listed.keys()),
        "other_invariants_violated_this_run": dict(others),
        "design_conformance": {
            "rule": "scenarios whose internal hook events (emits at linearization points, yields, one line per design action) were "
                    "accepted by TLC as a behaviour of spec/Proxy.tla through spec/ProxyTrace.tla, with the D_* invariants evaluated "
                    "in every state of the reconstructed run; skipped = outside the design model's scope",
            "scenarios_validated": dres["validated"], "accepted": dres["accepted"], "skipped": dres["skipped"],
            "lines": dres["events"], "actions_bound": dres["actions"],
            "rejected": [{k: r.get(k) for k in ("scenario", "reached", "lines", "next")} for r in dres["rejected"][:5]],
        },
        "families": spec["families"],
        "exhaustive": False,
    }
    cov["_violations"] = len(unlisted)
    cov["_assumptions"] = ["TLC/SANY", "testing/synctest virtual clock", "net.Pipe in-memory network", "harness recorder and fake targets",
                           "bounded configurations of the design model (constants in spec/MC_*.cfg)"]
    EVIDENCE.append(cov)
    if rc == 0 and dres["broken"]:
        raise Inconclusive("design-level trace validation failed to run: %r" % dres["broken"][:2])
    if rc == 0 and dres["rejected"]:
        r = dres["rejected"][0]
        path = vlib.save_replay(prop, 900, {"property": prop, "drift": {k: r.get(k) for k in ("scenario", "reached", "lines", "next", "tail")},
                                            "design_trace_prefix": r.get("prefix")})
        raise Inconclusive("model drift: in scenario %s the code took a step the design model spec/Proxy.tla does not allow "
                           "(line %s of %s: %s); no property of the observable layer was violated. details=%s"
                           % (r["scenario"], r["reached"], r["lines"], json.dumps(r["next"]), path))
    if rc == 0 and drift:
        raise Inconclusive("model drift: the design model violates %s but the replayed schedule did not violate the property on the code" % drift)
    unreachable = [n for n in notes if n[0].endswith("-unreachable")]
    if rc == 0 and unreachable:
        raise Inconclusive("vacuity: goals not reachable in the design model: %s" % unreachable)
    if nontrivial == 0 and not replay:
        raise Inconclusive("vacuous run: no scenario exercised the antecedent of any invariant of %s" % prop)
    return rc


# ---- sequential families: Routing.tla / MC_Routing.tla / RoutingTrace.tla ------------------

# src: which generated histories a property replays: "routing" = random walks of MC_Routing (host/path/TLS universe),
# "ops" = random walks of MC_Ops (all command kinds, faults), "pairs" = every ordered pair of commands + restart
SEQ = {
    "C04": dict(src=["routing"], invs=["C04", "C11_restore"], cov=["C04", "C04_404"], dinvs=["Inv_RouteWellDefined", "Inv_RouteSound"]),
    "C05": dict(src=["routing"], invs=["C05_b", "C05_a"], cov=["C05_b"], dinvs=["Inv_Ownership", "Act_RejectedChangesNothing"]),
    "C06": dict(src=["ops", "pairs"], invs=["C06_a", "C06_b", "C06_res", "C05_b", "C16_acme", "C10_notset"], cov=["C06_a", "C06_res"], dinvs=["Act_FailChangesNothing"]),
    "C10": dict(src=["ops", "pairs"], invs=["C10", "C10_notset"], cov=["C10", "C10_notset"], dinvs=["Inv_SplitNeedsTargets"]),
    "C11": dict(src=["ops", "pairs", "routing"], invs=["C11_cfg", "C11_restore", "C18_panic"], cov=["C11_cfg"], dinvs=["Act_FailChangesNothing"]),
    "C16": dict(src=["routing"], invs=["C16", "C16_cert", "C16_acme", "C11_restore"], cov=["C16", "C16_cert"], dinvs=["Inv_Cert", "Inv_Decision"]),
}
SEQ_SIMS = {"quick": (70, 8), "thorough": (2000, 10)}   # (behaviours, depth)


def run_seq(prop, tier, seed, replay=None):
    import random, routing
    t0 = time.time()
    spec = SEQ[prop]
    known = vlib.load_known()
    binary = vlib.build_harness()
    rng = random.Random(seed)
    mc = []
    plans = []
    if replay:
        plans = [json.load(open(replay))["plan"]]
    else:
        plans += routing.regression_plans()
        if "pairs" in spec["src"]:
            plans += routing.pairwise_restart_plans()
        wd = vlib.spec_copy("routing")
        cfg = "MC_Routing_%s.cfg" % tier
        pm = vlib.start_tlc(wd, "MC_Routing.tla", cfg, workers=vlib.NCPU // 2, timeout=MC_TIMEOUT[tier], heap_mb=MC_HEAP_MB[tier])
        wd2 = vlib.spec_copy("routing-sim")
        n, depth = SEQ_SIMS[tier]
        ps = vlib.start_tlc(wd2, "MC_Routing.tla", "MC_Routing_thorough.cfg", workers=1, timeout=300,
                            extra=["-simulate", "file=%s,num=%d" % (os.path.join(wd2, "sim"), n), "-depth", str(depth), "-seed", str(seed)])
        wd3 = vlib.spec_copy("ops-sim")
        po = vlib.start_tlc(wd3, "MC_Ops.tla", "MC_Ops.cfg", workers=1, timeout=300,
                            extra=["-simulate", "file=%s,num=%d" % (os.path.join(wd3, "sim"), n), "-depth", str(depth + 4), "-seed", str(seed)])
        wd4 = vlib.spec_copy("ops-mc")
        pmo = vlib.start_tlc(wd4, "MC_Ops.tla", "MC_Ops_%s.cfg" % tier, workers=max(2, vlib.NCPU // 4), timeout=MC_TIMEOUT[tier], heap_mb=MC_HEAP_MB[tier])
        rc, out = vlib.finish_tlc(po)
        ofiles = sorted(glob.glob(os.path.join(wd3, "sim_*")))
        if not ofiles:
            raise Inconclusive("TLC simulate (MC_Ops) produced no behaviours:\n" + out[-1500:])
        for f in ofiles:
            steps = routing.ops_steps_from_text(open(f).read(), rng)
            if steps and "ops" in spec["src"]:
                plans.append(routing.plan(steps, note="ops simulate " + os.path.basename(f)))
        rc, out = vlib.finish_tlc(pmo)
        verdict = vlib.tlc_verdict(rc, out)
        st, gen = vlib.tlc_stats(out)
        mc.append(dict(cfg="MC_Ops_%s.cfg" % tier, verdict=verdict, states=st, transitions=gen))
        if verdict not in ("ok",) and not (verdict == "timeout" and tier == "thorough"):
            raise Inconclusive("TLC on MC_Ops: %s\n%s" % (verdict, out[-2000:]))
        shutil.rmtree(wd3, ignore_errors=True)
        shutil.rmtree(wd4, ignore_errors=True)
        rc, out = vlib.finish_tlc(ps)
        files = sorted(glob.glob(os.path.join(wd2, "sim_*")))
        if not files:
            raise Inconclusive("TLC simulate produced no behaviours:\n" + out[-1500:])
        for f in files:
            steps = routing.steps_from_text(open(f).read())
            if not steps or "routing" not in spec["src"]:
                continue
            plans.append(routing.plan(routing.with_restarts(steps, rng, 1), note="simulate " + os.path.basename(f)))
            if rng.random() < 0.3:
                for perm in routing.permutations_same_table(steps, rng, 1):
                    plans.append(routing.plan(routing.with_restarts(perm, rng, 1), note="permutation of " + os.path.basename(f)))
        rc, out = vlib.finish_tlc(pm)
        verdict = vlib.tlc_verdict(rc, out)
        st, gen = vlib.tlc_stats(out)
        mc.append(dict(cfg=cfg, verdict=verdict, states=st, transitions=gen))
        if verdict == "timeout" and tier == "thorough":
            pass   # recorded as not exhaustive
        elif verdict != "ok":
            raise Inconclusive("TLC on %s: %s\n%s" % (cfg, verdict, out[-2000:]))
        shutil.rmtree(wd, ignore_errors=True)
        shutil.rmtree(wd2, ignore_errors=True)
    outs = []
    procs = min(vlib.NCPU, max(1, len(plans) // 4))
    per = (len(plans) + procs - 1) // procs
    for i in range(0, len(plans), per):
        pdir = os.path.join(vlib.scratch(), "rplans-%d" % i)
        os.makedirs(pdir, exist_ok=True)
        for k, pl in enumerate(plans[i:i + per]):
            json.dump(pl, open(os.path.join(pdir, "%05d.json" % k), "w"))
        outs.append((pdir, i))
    odirs = []
    # run the groups in parallel
    import subprocess
    running = []
    for pdir, i in outs:
        out = os.path.join(vlib.scratch(), "rexec-%d" % i)
        os.makedirs(out, exist_ok=True)
        env = dict(vlib.GOENV, VERIF_OUT=out, VERIF_PLANS=pdir, VERIF_FIRST=str(i))
        p = subprocess.Popen([binary, "-test.run", "^TestRouting$", "-test.timeout", "30m"], cwd=out, env=env,
                             stdout=subprocess.PIPE, stderr=subprocess.STDOUT, text=True)
        running.append((p, out, pdir))
    for p, out, pdir in running:
        o, _ = p.communicate()
        if p.returncode != 0:
            pp = vlib.classify_crash(out, o)
            if pp:
                cur = os.path.join(out, "current")
                if os.path.exists(cur):
                    pp.plan = json.load(open(os.path.join(pdir, open(cur).read().strip())))
                raise pp
            raise Inconclusive("executor failed (exit %d):\n%s" % (p.returncode, o[-3000:]))
        odirs.append((out, pdir))
    traces = []
    n_scn, events = 0, collections.Counter()
    for out, pdir in odirs:
        traces.append(os.path.join(out, "trace.ndjson"))
        s = json.load(open(os.path.join(out, "summary.json")))
        n_scn += s["scenarios"]
        events.update(s["events"])
    res = vlib.validate_traces(traces, module="OpsTrace.tla", cfg="OpsTrace.cfg")
    harness = [v for v in res["violations"] if v["inv"] == "HARNESS"]
    if harness:
        raise Inconclusive("harness-level problem in trace: %r" % harness[:3])
    # C11 owns every mismatch observed after a restart: the restored proxy must behave as the original would have
    mine = [v for v in res["violations"] if v["inv"] in spec["invs"] or (prop == "C11" and v.get("post") and v["inv"] != "HARNESS")]
    others = collections.Counter(v["inv"] for v in res["violations"] if v not in mine)
    listed, unlisted = collections.OrderedDict(), []
    for v in mine:
        k = vlib.match_known(prop, v, known)
        if k:
            listed.setdefault(k["id"], [k, 0])[1] += 1
        else:
            unlisted.append(v)
    for kid, (k, cnt) in listed.items():
        print("KNOWN-FINDING: %s (%d instance(s) this run)" % (k["text"].split(" ", 1)[1], cnt))
    rc = 0
    seen = set()
    for v in unlisted:
        key = (v["trace"], v["scn"])
        if key in seen or len(seen) >= 10:
            continue
        seen.add(key)
        out = os.path.dirname(v["trace"])
        pdir = [p for o, p in odirs if o == out][0]
        base = int(os.path.basename(out).split("-")[1])
        pf = os.path.join(pdir, "%05d.json" % (v["scn"] - base))
        plan = json.load(open(pf)) if os.path.exists(pf) else None
        observed = [json.loads(l) for l in open(v["trace"]) if '"scn":%d,' % v["scn"] in l and '"ev":"probe"' not in l
                    and '"ev":"y_' not in l and '"ev":"e_' not in l and '"ev":"tg_' not in l][:400]
        path = vlib.save_replay(prop, len(seen) - 1, {"property": prop, "violation": {k: v[k] for k in v if k != "trace"}, "plan": plan,
                                                      "observed_trace": observed})
        print("VIOLATION property=%s replay=%s" % (prop, path))
        print("  %s subject=%s scenario=%s: %s" % (v["inv"], v["subj"], v["scn"], v["detail"]))
        rc = 1
    nontrivial = sum(res["coverage"].get(i, 0) for i in spec["cov"])
    samples = []
    if traces:
        with open(traces[0]) as f:
            for j, line in enumerate(f):
                if j >= 8:
                    break
                samples.append(json.loads(line))
    cov = {
        "states": max(1, sum(m["states"] for m in mc)), "transitions": max(1, sum(m["transitions"] for m in mc)),
        "traces_validated_against_impl": n_scn, "evaluations": res["lines"], "distinct_nontrivial": nontrivial,
        "rule": "states = reachable routing tables of spec/MC_Routing.tla (universe in the cfg), each checked by TLC against "
                "the design invariants; one trace = one command history generated by TLC (random walks of that state graph, with a "
                "restart inserted and some with the deploys permuted) replayed into a real router; after every command the whole "
                "request matrix (hosts x paths x schemes, SNI names) is sent through the full handler chain and each observed line is "
                "compared by TLC with Decision/Cert/DeployResult of spec/Routing.tla on the table the specification computes; "
                "distinct_nontrivial = observed lines that exercised this property's operators (counted by the trace spec)",
        "design_model": mc, "design_invariants": spec["dinvs"], "antecedent_hits": res["coverage"],
        "events_recorded": dict(events), "samples": samples, "known_findings_printed": list(listed.keys()),
        "other_invariants_violated_this_run": dict(others), "exhaustive": all(m["verdict"] == "ok" for m in mc) and bool(mc),
    }
    cov["_violations"] = len(unlisted)
    cov["_assumptions"] = ["TLC/SANY", "harness lexer for hosts and paths (well-formed inputs only)", "fake targets identify the serving service"]
    EVIDENCE.append(cov)
    if nontrivial == 0 and not replay:
        raise Inconclusive("vacuous run for %s" % prop)
    return rc


# ---- function families: a TLA+ module defines the function, a Go driver records (input, output) lines -----------

REQ_RULE = ("one evaluation = one crafted request written as raw bytes to the full handler chain and answered by an echo target; the trace "
            "spec compares what the target received / the client got back with the specification's function; distinct_nontrivial = "
            "evaluations that exercised the listed aspects (counted by the trace spec)")

FN = {
    "C13": dict(test="TestReqSuite", module="ForwardTrace.tla", cfg="ForwardTrace.cfg", mc=("MC_Forward.tla", "MC_Forward.cfg"),
                keep={"reset", "fwd", "harness_error"},
                invs=["C13_path", "C13_line", "C13_query", "C13_hdrs", "C13_body", "C13_xff", "C13_xf", "C13_rid", "C13_rstart", "C13_resp"],
                cov=["C13_strip", "C13_fwd", "C13_xff", "C13_resp"],
                sizes={"quick": {"VERIF_SUITE": "forward", "VERIF_N": "1500"}, "thorough": {"VERIF_SUITE": "forward", "VERIF_N": "40000"}}, rule=REQ_RULE),
    "C14": dict(test="TestReqSuite", module="BufferTrace.tla", cfg="BufferTrace.cfg", mc=("MC_Buffer.tla", "MC_Buffer.cfg"),
                keep={"reset", "bufw", "bufreq", "harness_error"},
                invs=["C14_mem", "C14_buf", "C14_outcome", "C14_early", "C14_tmp"],
                cov=["C14_spill", "C14_over", "C14_413", "C14_500", "C14_sse", "C14_early"],
                sizes={"quick": {"VERIF_SUITE": "buffer", "VERIF_N": "1500"}, "thorough": {"VERIF_SUITE": "buffer", "VERIF_N": "40000"}}, rule=REQ_RULE),
    "C15": dict(test="TestReqSuite", module="FaultsTrace.tla", cfg="FaultsTrace.cfg", mc=("MC_Faults.tla", "MC_Faults.cfg"),
                keep={"reset", "fault_obs", "fault_after", "harness_error"},
                invs=["C15_outcome", "C15_residue"], cov=["C15_early", "C15_late", "C15_stall", "C15_custom", "C15_after"],
                sizes={"quick": {"VERIF_SUITE": "faults", "VERIF_N": "1200"}, "thorough": {"VERIF_SUITE": "faults", "VERIF_N": "30000"}}, rule=REQ_RULE),
    "C19": dict(test="TestReqSuite", module="AccessLogTrace.tla", cfg="AccessLogTrace.cfg", mc=("AccessLog.tla", "AccessLog.cfg"),
                keep={"reset", "log_obs", "harness_error"},
                invs=["C19_count", "C19_status", "C19_bytes", "C19_req", "C19_service", "C19_target", "C19_hdrs"],
                cov=["C19_served", "C19_early", "C19_cut", "C19_notfound", "C19_stopped", "C19_pausedout", "C19_redirect", "C19_tlsrefused", "C19_fault502", "C19_fault504",
                     "C19_overflow413", "C19_overflow500", "C19_abort", "C19_upgrade"],
                sizes={"quick": {"VERIF_SUITE": "accesslog", "VERIF_N": "1200"}, "thorough": {"VERIF_SUITE": "accesslog", "VERIF_N": "30000"}}, rule=REQ_RULE),
    "C10": dict(test="TestRolloutFn", module="RolloutTrace.tla", cfg="RolloutTrace.cfg", mc=("Rollout.tla", "Rollout.cfg"),
                keep={"reset", "rollout_obs", "rollout_end", "harness_error"},
                invs=["C10_fn", "C10_off", "C10_optin", "C10_allow", "C10_share"], cov=["C10_fn", "C10_allow", "C10_optin", "C10_off"],
                sizes={"quick": {"VERIF_N": "200", "VERIF_EXTREME": "150000000"}, "thorough": {"VERIF_N": "2000", "VERIF_EXTREME": "1500000000"}},
                rule="one evaluation = one request carrying one cookie value (random values, values whose hash is extreme or next to a "
                     "percentage boundary, several header shapes) sent through the full stack at one of the 101 percentages / allowlists; "
                     "RolloutTrace narrows the threshold interval of each value and checks the share band; distinct_nontrivial = decisions "
                     "that narrowed or tested a threshold interval, an allowlist, the opt-in rule or the no-split rule"),
}


def run_fn(prop, tier, seed, replay=None):
    import subprocess
    t0 = time.time()
    spec = FN[prop]
    known = vlib.load_known()
    binary = vlib.build_harness()
    mc = []
    pm = None
    if spec.get("mc"):
        wd = vlib.spec_copy("fn-" + prop)
        pm = vlib.start_tlc(wd, spec["mc"][0], spec["mc"][1], workers=4, timeout=MC_TIMEOUT[tier])
    out = os.path.join(vlib.scratch(), "fn-%s-%d" % (prop, int(time.time() * 1000) % 100000))
    os.makedirs(out, exist_ok=True)
    env = dict(vlib.GOENV, VERIF_OUT=out, VERIF_SEED=str(seed), VERIF_TIER=tier)
    env.update(spec["sizes"][tier])
    if replay:
        env.update(json.load(open(replay)).get("env", {}))
    p = subprocess.run([binary, "-test.run", "^" + spec["test"] + "$", "-test.timeout", "60m"], cwd=out, env=env, capture_output=True, text=True)
    if p.returncode != 0:
        pp = vlib.classify_crash(out, p.stdout + p.stderr)
        if pp:
            raise pp
        raise Inconclusive("driver %s failed (exit %d):\n%s" % (spec["test"], p.returncode, (p.stdout + p.stderr)[-3000:]))
    tf = os.path.join(out, "obs.ndjson")
    vlib.filter_trace(os.path.join(out, "trace.ndjson"), tf, keep=spec["keep"])
    res = vlib.validate_traces([tf], module=spec["module"], cfg=spec["cfg"])
    if pm:
        rc, o = vlib.finish_tlc(pm)
        verdict = vlib.tlc_verdict(rc, o)
        st, gen = vlib.tlc_stats(o)
        mc.append(dict(cfg=spec["mc"][1], verdict=verdict, states=st, transitions=gen))
        if verdict != "ok":
            raise Inconclusive("TLC on %s: %s\n%s" % (spec["mc"][1], verdict, o[-1500:]))
    if [v for v in res["violations"] if v["inv"] == "HARNESS"]:
        raise Inconclusive("harness-level problem in trace: %r" % [v for v in res["violations"] if v["inv"] == "HARNESS"][:3])
    mine = [v for v in res["violations"] if v["inv"] in spec["invs"]]
    listed, unlisted = collections.OrderedDict(), []
    for v in mine:
        k = vlib.match_known(prop, v, known)
        if k:
            listed.setdefault(k["id"], [k, 0])[1] += 1
        else:
            unlisted.append(v)
    for kid, (k, cnt) in listed.items():
        print("KNOWN-FINDING: %s (%d instance(s) this run)" % (k["text"].split(" ", 1)[1], cnt))
    rc = 0
    for i, v in enumerate(unlisted[:10]):
        path = vlib.save_replay(prop, 200 + i, {"property": prop, "violation": {k: v[k] for k in v if k != "trace"},
                                                "env": dict(spec["sizes"][tier], VERIF_SEED=str(seed)), "plan": {"driver": spec["test"]}})
        print("VIOLATION property=%s replay=%s" % (prop, path))
        print("  %s subject=%s: %s" % (v["inv"], v["subj"], v["detail"]))
        rc = 1
    samples = []
    with open(tf) as f:
        for j, line in enumerate(f):
            if j >= 8:
                break
            samples.append(json.loads(line))
    nontrivial = sum(res["coverage"].get(i, 0) for i in spec["cov"])
    cov = {"states": max(1, sum(m["states"] for m in mc)), "transitions": max(1, sum(m["transitions"] for m in mc)),
           "traces_validated_against_impl": 1, "evaluations": res["lines"], "distinct_nontrivial": nontrivial, "rule": spec["rule"],
           "design_model": mc, "antecedent_hits": res["coverage"], "samples": samples, "known_findings_printed": list(listed.keys()),
           "exhaustive": False, "_violations": len(unlisted), "_assumptions": ["TLC/SANY", "harness driver and recorder", "fake targets identify the serving group"]}
    EVIDENCE.append(cov)
    if nontrivial == 0:
        raise Inconclusive("vacuous run for %s" % prop)
    return rc


# ---- C18: panics (every family), deadlocks and data races (uncontrolled runs under the race detector) --------------

RACE_FAMILIES = ["stress", "rollout", "own", "pause", "health", "snap"]


def parse_races(text):
    """Each report -> key 'funcA | funcB' of the two innermost proxy frames (stable under line shifts)."""
    keys = {}
    for block in text.split("WARNING: DATA RACE")[1:]:
        block = block.split("==================")[0]
        tops = []
        for part in re.split(r"\n\n", block):
            if not re.match(r"\s*(Write|Read|Previous write|Previous read|Atomic)", part.strip()):
                continue
            frames = re.findall(r"^  ([\w./\-*()\[\]]+)\(\)", part, re.M)
            proxy = [f for f in frames if "kamal-proxy/internal/" in f]
            tops.append(proxy[0].split("kamal-proxy/internal/")[1] if proxy else (frames[0] if frames else "?"))
        if len(tops) >= 2:
            key = " | ".join(sorted(tops[:2]))
            keys.setdefault(key, block[:1500])
    return keys


def run_c18(prop, tier, seed, replay=None):
    import subprocess
    t0 = time.time()
    known = vlib.load_known()
    rc = 0
    # (1) panics: the controlled families and the sequential histories
    sub = {"C18": dict(families=["deploy", "pause", "rollout", "own", "snap", "health"], invs=["C18_panic"], dinvs=[])}
    CONC.update(sub)
    sizes_backup = dict(SIZES[tier])
    if tier == "quick":
        SIZES[tier].update(deploy=40, pause=50, rollout=50, own=50, snap=40, health=60)
    if replay:
        try:
            return run_conc("C18", tier, seed, replay)
        finally:
            SIZES[tier].update(sizes_backup)
    # (2) data races and deadlocks: the same scenario generators, no controller, real scheduler, race detector on
    binary = vlib.build_harness(race=True)
    n = 40 if tier == "quick" else 1500
    races, hangs, scen = {}, [], 0
    procs = []
    for fam in RACE_FAMILIES:
        out = os.path.join(vlib.scratch(), "race-%s" % fam)
        os.makedirs(out, exist_ok=True)
        env = dict(vlib.GOENV, VERIF_OUT=out, VERIF_FAMILY=fam, VERIF_N=str(n), VERIF_SEED=str(seed), VERIF_TIER=tier, VERIF_SCHED="free",
                   GORACE="halt_on_error=0 history_size=3")
        p = subprocess.Popen([binary, "-test.run", "^TestRun$", "-test.timeout", "240s" if tier == "quick" else "40m"], cwd=out, env=env,
                             stdout=subprocess.PIPE, stderr=subprocess.STDOUT, text=True)
        procs.append((fam, out, p))
    for fam, out, p in procs:
        o, _ = p.communicate()
        scen += n
        for k, blk in parse_races(o).items():
            races.setdefault(k, (fam, blk))
        if "test timed out" in o:
            blocked = re.findall(r"goroutine \d+ \[(?:sync\.Mutex\.Lock|sync\.RWMutex\.R?Lock|semacquire)[^\]]*\]:\n((?:.+\n)+?)\n", o)
            mine = [b for b in blocked if "kamal-proxy/internal/server" in b]
            if mine:
                hangs.append((fam, mine[0][:1200]))
            else:
                raise Inconclusive("uncontrolled run of family %s timed out without goroutines blocked on the proxy's locks:\n%s" % (fam, o[-2000:]))
        elif p.returncode != 0 and "DATA RACE" not in o:
            pp = vlib.classify_crash(out, o)
            if pp:
                raise pp
            raise Inconclusive("race run of family %s failed (exit %d):\n%s" % (fam, p.returncode, o[-2500:]))
    listed = collections.OrderedDict()
    nviol = 0
    for key, (fam, blk) in sorted(races.items()):
        v = {"inv": "C18_race", "sig": "", "subj": key}
        k = vlib.match_known("C18", v, known)
        if k:
            listed[k["id"] + " " + key] = k
            print("KNOWN-FINDING: %s [%s]" % (k["text"].split(" ", 1)[1], key))
            continue
        path = vlib.save_replay("C18", 300 + nviol, {"property": "C18", "violation": {"inv": "C18_race", "subj": key, "report": blk},
                                                     "plan": {"race_family": fam, "seed": seed}})
        print("VIOLATION property=C18 replay=%s" % path)
        print("  data race between %s (family %s)" % (key, fam))
        nviol += 1
        rc = 1
    for fam, blk in hangs:
        path = vlib.save_replay("C18", 400, {"property": "C18", "violation": {"inv": "C18_deadlock", "report": blk}, "plan": {"race_family": fam, "seed": seed}})
        print("VIOLATION property=C18 replay=%s" % path)
        print("  deadlock: the run stopped making progress with goroutines blocked on the proxy's locks (family %s)\n%s" % (fam, blk[:600]))
        nviol += 1
        rc = 1
    try:
        rc = max(rc, run_conc("C18", tier, seed, None))
    except Inconclusive as e:
        if rc == 0:
            raise
        print("  (controlled part inconclusive: %s)" % str(e)[:300])
    finally:
        SIZES[tier].update(sizes_backup)
    EVIDENCE.append({"states": 1, "transitions": 1, "traces_validated_against_impl": scen, "evaluations": scen, "distinct_nontrivial": scen,
                     "rule": "uncontrolled part: the scenario generators of the concurrency families run without the controller (real scheduler, "
                             "16 cores) under the race detector; every report is keyed by the pair of innermost proxy functions; a run that "
                             "times out with goroutines blocked on the proxy's own locks is a deadlock",
                     "race_reports": sorted(races.keys()), "known_findings_printed": list(listed.keys()), "samples": [{"families": RACE_FAMILIES, "scenarios_each": n}],
                     "_violations": nviol, "_assumptions": ["Go race detector (dynamic: only executed interleavings)", "testing/synctest"]})
    return rc


def run_cli(prop, tier, seed, replay=None):
    import cli_driver
    t0 = time.time()
    known = vlib.load_known()
    wd = vlib.spec_copy("cli")
    pm = vlib.start_tlc(wd, "Cli.tla", "Cli.cfg", workers=2, timeout=120)
    scratch = os.path.join(vlib.scratch(), "cli")
    os.makedirs(scratch, exist_ok=True)
    binary = cli_driver.build_binary(scratch)
    tf = os.path.join(scratch, "cli.ndjson")
    import subprocess
    hb = vlib.build_harness()
    subprocess.run([hb, "-test.run", "^TestWriteCert$"], env=dict(vlib.GOENV, VERIF_OUT=scratch), capture_output=True)
    cert, key = os.path.join(scratch, "cert.pem"), os.path.join(scratch, "key.pem")
    n = cli_driver.run(binary, tf, seed, tier, scratch, cert if os.path.exists(cert) else None, key)
    res = vlib.validate_traces([tf], module="CliTrace.tla", cfg="CliTrace.cfg")
    rc_t, o = vlib.finish_tlc(pm)
    st, gen = vlib.tlc_stats(o)
    if vlib.tlc_verdict(rc_t, o) != "ok":
        raise Inconclusive("TLC on Cli.cfg failed:\n" + o[-1500:])
    if [v for v in res["violations"] if v["inv"] == "HARNESS"]:
        raise Inconclusive("harness-level problem: %r" % [v for v in res["violations"] if v["inv"] == "HARNESS"][:3])
    rc = 0
    unlisted = [v for v in res["violations"] if not vlib.match_known(prop, v, known)]
    for i, v in enumerate(unlisted[:10]):
        path = vlib.save_replay(prop, 500 + i, {"property": prop, "violation": {k: v[k] for k in v if k != "trace"}, "plan": {"driver": "cli", "seed": seed}})
        print("VIOLATION property=%s replay=%s" % (prop, path))
        print("  %s subject=%s: %s" % (v["inv"], v["subj"], v["detail"]))
        rc = 1
    samples = [json.loads(l) for l in open(tf).read().splitlines()[:6]]
    nontrivial = sum(res["coverage"].get(k, 0) for k in ("C20_opt", "C20_validate", "C20_exit", "C20_list"))
    EVIDENCE.append({"states": max(1, st), "transitions": max(1, gen), "traces_validated_against_impl": 1, "evaluations": n, "distinct_nontrivial": nontrivial,
                     "rule": "one evaluation = one row of a decision table of spec/Cli.tla executed against the built binary (scratch HOME and XDG_RUNTIME_DIR, "
                             "real loopback sockets): option source rows (which port is listening / debug log lines), deploy flag combinations against a sentinel "
                             "socket (contacted or not), client commands against a running proxy (exit status), `list` output parsed",
                     "antecedent_hits": res["coverage"], "samples": samples, "exhaustive": tier == "thorough",
                     "_violations": len(unlisted), "_assumptions": ["TLC/SANY", "real time and loopback sockets (no virtual clock)"]})
    if nontrivial == 0:
        raise Inconclusive("vacuous run for C20")
    return rc


EVIDENCE = []


def flush_evidence(prop, tier, seed, t0):
    """One evidence file per property: the parts (sequential / concurrent) are merged."""
    if not EVIDENCE:
        return
    if len(EVIDENCE) == 1:
        cov = dict(EVIDENCE[0])
    else:
        cov = {"parts": []}
        for k in ("states", "transitions", "traces_validated_against_impl", "evaluations", "distinct_nontrivial"):
            cov[k] = sum(e.get(k, 0) for e in EVIDENCE)
        cov["rule"] = " || ".join(e.get("rule", "") for e in EVIDENCE)
        cov["samples"] = sum((e.get("samples", [])[:6] for e in EVIDENCE), [])
        cov["exhaustive"] = False
        cov["_violations"] = sum(e.get("_violations", 0) for e in EVIDENCE)
        cov["_assumptions"] = sorted(set(sum((e.get("_assumptions", []) for e in EVIDENCE), [])))
        for e in EVIDENCE:
            cov["parts"].append({k: v for k, v in e.items() if k not in ("samples", "rule") and not k.startswith("_")})
    viol = cov.pop("_violations", 0)
    assumptions = cov.pop("_assumptions", [])
    vlib.write_evidence(prop, tier, seed, "model_checking", cov, time.time() - t0, viol, assumptions)


def main():
    ap = argparse.ArgumentParser()
    ap.add_argument("prop")
    ap.add_argument("--tier", default=os.environ.get("VERIF_TIER", "quick"))
    ap.add_argument("--replay")
    ap.add_argument("--no-evidence", action="store_true", help="do not rewrite evidence/<id>.json (used when checking seeded changes)")
    a = ap.parse_args()
    if a.no_evidence:
        vlib.write_evidence = lambda *x, **k: None
    seed = int(os.environ.get("VERIF_SEED", "1"))
    t0 = time.time()
    if not a.replay:
        shutil.rmtree(os.path.join(vlib.VERIF, "out", a.prop), ignore_errors=True)
    try:
        rc = None
        kind = None
        if a.replay:
            kind = "seq" if "steps" in (json.load(open(a.replay)).get("plan") or {}) else "conc"
        if a.replay and "driver" in (json.load(open(a.replay)).get("plan") or {}):
            kind = "fn"
        if a.prop == "C20":
            rc = run_cli(a.prop, a.tier, seed, a.replay)
        if a.prop == "C18":
            rc = run_c18(a.prop, a.tier, seed, a.replay)
        if a.prop in FN and kind in (None, "fn"):
            rc = run_fn(a.prop, a.tier, seed, a.replay)
        if a.prop in SEQ and kind in (None, "seq"):
            rc2 = run_seq(a.prop, a.tier, seed, a.replay)
            rc = rc2 if rc is None else max(rc, rc2)
        if a.prop in CONC and a.prop != "C18" and kind in (None, "conc"):
            rc2 = run_conc(a.prop, a.tier, seed, a.replay)
            rc = rc2 if rc is None else max(rc, rc2)
        if rc is None:
            print("unknown property", a.prop)
            rc = 2
        flush_evidence(a.prop, a.tier, seed, t0)
    except vlib.ProxyHang as e:
        # whose business a goroutine blocked for good is: a held request without its max-pause timer (C07), a command that
        # never returns (C17), any of them (C18: never deadlocks)
        mine = a.prop in ("C17", "C18") or (a.prop == "C07" and "PauseController).Wait" in e.what)
        if mine:
            inv = {"C17": "C17_a", "C07": "C07_d"}.get(a.prop, "C18_deadlock")
            path = vlib.save_replay(a.prop, 0, {"property": a.prop, "violation": {"inv": inv, "detail": e.what}, "plan": e.plan})
            print("VIOLATION property=%s replay=%s" % (a.prop, path))
            print("  %s: a command or request is %s, with no timer left that could wake it" % (inv, e.what))
            rc = 1
        else:
            print("INCONCLUSIVE property=%s: the proxy hangs (%s); this is C17/C18's business, %s cannot be decided on this tree" % (a.prop, e.what, a.prop))
            rc = 2
    except vlib.ProxyPanic as e:
        path = vlib.save_replay(a.prop, 0, {"property": a.prop, "violation": {"inv": "C18_panic", "detail": e.what}, "plan": e.plan})
        print("VIOLATION property=%s replay=%s" % (a.prop, path))
        print("  the proxy panicked (a panic outside a command handler kills the whole process): %s" % e.what)
        print(e.text[-1500:])
        rc = 1
    except Inconclusive as e:
        print("INCONCLUSIVE property=%s: %s" % (a.prop, e))
        rc = 2
    except Exception:
        # a failure of the machinery itself is never a verdict
        import traceback
        print("INCONCLUSIVE property=%s: internal error of the check\n%s" % (a.prop, traceback.format_exc()[-3000:]))
        rc = 2
    sys.exit(rc)


if __name__ == "__main__":
    main()
