package harness

import (
	"bytes"
	"fmt"
	"math/rand"
	"runtime"
	"sort"
	"strconv"
	"strings"
	"sync"
)

// A parked goroutine waiting at a yield point (a hook in the proxy, or a
// decision point of one of the harness's own actors).
type parked struct {
	point    string
	actor    string
	internal bool // a step of the proxy's own code (urgent), not an environment decision
	ch       chan struct{}
	order    int
}

func (p *parked) key() string { return p.point + "@" + p.actor }

// Controller owns the interleaving: goroutines park at yield points and are
// released one at a time.
type Controller struct {
	mu       sync.Mutex
	parked   []*parked
	auto     bool // release immediately (uncontrolled mode / settle phase)
	wake     chan struct{}
	order    int
	gidActor map[uint64]string
	// points at which goroutines park; others only record
	Decisions []string
	Misses    int
	Hits      int
	Missed    []string
}

func NewController(auto bool) *Controller {
	return &Controller{auto: auto, wake: make(chan struct{}, 1), gidActor: map[uint64]string{}}
}

func goid() uint64 {
	var buf [64]byte
	n := runtime.Stack(buf[:], false)
	// "goroutine 123 ["
	b := buf[:n]
	b = bytes.TrimPrefix(b, []byte("goroutine "))
	i := bytes.IndexByte(b, ' ')
	if i < 0 {
		return 0
	}
	id, _ := strconv.ParseUint(string(b[:i]), 10, 64)
	return id
}

func (c *Controller) BindGoroutine(actor string) {
	g := goid()
	c.mu.Lock()
	c.gidActor[g] = actor
	c.mu.Unlock()
}

func (c *Controller) UnbindGoroutine() {
	g := goid()
	c.mu.Lock()
	delete(c.gidActor, g)
	c.mu.Unlock()
}

func (c *Controller) ActorOfGoroutine() string {
	g := goid()
	c.mu.Lock()
	defer c.mu.Unlock()
	return c.gidActor[g]
}

func (c *Controller) SetAuto(auto bool) {
	c.mu.Lock()
	c.auto = auto
	ps := c.parked
	if auto {
		c.parked = nil
	}
	c.mu.Unlock()
	if auto {
		for _, p := range ps {
			close(p.ch)
		}
	}
}

// Park blocks the calling goroutine until the controller releases it. Must be
// called only where the goroutine holds no lock.
func (c *Controller) Park(point, actor string, internal bool) {
	c.mu.Lock()
	if c.auto {
		c.mu.Unlock()
		return
	}
	c.order++
	p := &parked{point: point, actor: actor, internal: internal, ch: make(chan struct{}), order: c.order}
	c.parked = append(c.parked, p)
	c.mu.Unlock()
	c.Wake()
	<-p.ch
}

// Wake nudges a controller that is waiting for something to happen.
func (c *Controller) Wake() {
	select {
	case c.wake <- struct{}{}:
	default:
	}
}

func (c *Controller) snapshot() []*parked {
	c.mu.Lock()
	defer c.mu.Unlock()
	ps := append([]*parked(nil), c.parked...)
	sort.Slice(ps, func(i, j int) bool {
		return ps[i].key() < ps[j].key() || (ps[i].key() == ps[j].key() && ps[i].order < ps[j].order)
	})
	return ps
}

func (c *Controller) release(p *parked) {
	c.mu.Lock()
	for i, q := range c.parked {
		if q == p {
			c.parked = append(c.parked[:i], c.parked[i+1:]...)
			break
		}
	}
	c.mu.Unlock()
	close(p.ch)
}

// Scheduler picks the next decision among the options. Options are keys of
// parked goroutines plus, possibly, "advance".
type Scheduler interface {
	Pick(step int, opts []string, internal []bool) int
}

type randomSched struct{ rng *rand.Rand }

func (s *randomSched) Pick(step int, opts []string, internal []bool) int {
	return s.rng.Intn(len(opts))
}

// pctSched: PCT-style priorities per actor with d-1 priority change points.
type pctSched struct {
	rng     *rand.Rand
	prio    map[string]int
	changes map[int]bool
	low     int
}

func newPCT(rng *rand.Rand, depth, maxSteps int) *pctSched {
	s := &pctSched{rng: rng, prio: map[string]int{}, changes: map[int]bool{}, low: 0}
	horizon := []int{15, 30, 60, maxSteps}[rng.Intn(4)]
	for i := 0; i < depth-1; i++ {
		s.changes[rng.Intn(horizon)] = true
	}
	return s
}

func actorOf(key string) string {
	for i := 0; i < len(key); i++ {
		if key[i] == '@' {
			return key[i+1:]
		}
	}
	return key
}

func (s *pctSched) Pick(step int, opts []string, internal []bool) int {
	// time passes only when nothing else can run, or (rarely) by chance
	if len(opts) > 1 && opts[len(opts)-1] == "advance" {
		if s.rng.Intn(20) == 0 {
			return len(opts) - 1
		}
		opts = opts[:len(opts)-1]
	}
	best, bestP := -1, -1<<30
	for i, o := range opts {
		a := actorOf(o)
		p, ok := s.prio[a]
		if !ok {
			p = 1000 + s.rng.Intn(1000000)
			if o == "advance" {
				p = 500 + s.rng.Intn(400)
			}
			s.prio[a] = p
		}
		if p > bestP {
			best, bestP = i, p
		}
	}
	if s.changes[step] {
		s.low--
		s.prio[actorOf(opts[best])] = s.low
	}
	return best
}

// freezeSched: random scheduling, but now and then one parked actor is frozen
// (not scheduled) for as long as anything else can run. This reaches the
// schedules in which one goroutine sits between two of its steps while whole
// commands and requests run past it.
type freezeSched struct {
	rng    *rand.Rand
	frozen map[string]int // actor -> step at which it was frozen
	p      float64
	max    int
}

func newFreeze(rng *rand.Rand) *freezeSched {
	return &freezeSched{rng: rng, frozen: map[string]int{}, p: 0.05 + rng.Float64()*0.25, max: 1 + rng.Intn(2)}
}

func (s *freezeSched) Pick(step int, opts []string, internal []bool) int {
	// maybe freeze one more internal actor
	if len(s.frozen) < s.max && s.rng.Float64() < s.p {
		var cands []string
		for i, o := range opts {
			if internal[i] {
				if _, ok := s.frozen[actorOf(o)]; !ok {
					cands = append(cands, actorOf(o))
				}
			}
		}
		if len(cands) > 0 {
			s.frozen[cands[s.rng.Intn(len(cands))]] = step
		}
	}
	var free []int
	for i, o := range opts {
		if _, ok := s.frozen[actorOf(o)]; !ok && o != "advance" {
			free = append(free, i)
		}
	}
	if len(free) > 0 {
		return free[s.rng.Intn(len(free))]
	}
	// nothing else can run: sometimes let time pass (if allowed), else thaw the oldest
	for i, o := range opts {
		if o == "advance" && s.rng.Intn(3) > 0 {
			return i
		}
	}
	oldest, at := "", 1<<30
	for a, st := range s.frozen {
		if st < at {
			oldest, at = a, st
		}
	}
	delete(s.frozen, oldest)
	for i, o := range opts {
		if actorOf(o) == oldest {
			return i
		}
	}
	return s.rng.Intn(len(opts))
}

// barrierSched collects goroutines at a set of hooks and releases them together (Pick returns -1 = burst): the code
// between those hooks and the next ones then runs in parallel on the real scheduler. This is how a counterexample of
// a design-model variant whose steps lie inside one critical section of the code ("check, then set") is aimed at.
type barrierSched struct {
	rng    *rand.Rand
	points map[string]bool
	n      int
	waited int
	after  int        // armed from this virtual time (ms) on
	now    func() int // virtual time
	fired  func()     // called when the barrier opens
}

func (s *barrierSched) Pick(step int, opts []string, internal []bool) int {
	var at, others []int
	adv := -1
	for i, o := range opts {
		if o == "advance" {
			adv = i
			continue
		}
		p := o
		if k := strings.Index(o, "@"); k >= 0 {
			p = o[:k]
		}
		if (s.points[p] || s.points[o]) && s.now() >= s.after {
			at = append(at, i)
		} else {
			others = append(others, i)
		}
	}
	if len(at) >= s.n {
		s.waited = 0
		if s.fired != nil {
			s.fired()
		}
		return -1
	}
	if len(others) > 0 {
		return others[s.rng.Intn(len(others))]
	}
	if adv >= 0 && (len(at) == 0 || s.waited < 30) {
		s.waited++
		return adv
	}
	s.waited = 0
	return -1
}

// replaySched follows a recorded decision list; on a miss it falls back.
type replaySched struct {
	list     []string
	pos      int
	fallback Scheduler
	ctl      *Controller
}

func (s *replaySched) Pick(step int, opts []string, internal []bool) int {
	for s.pos < len(s.list) {
		want := s.list[s.pos]
		if want == "burst" {
			s.pos++
			s.ctl.Hits++
			return -1
		}
		for i, o := range opts {
			if o == want {
				s.pos++
				s.ctl.Hits++
				return i
			}
		}
		// The wanted decision is not available now. If something internal is
		// still runnable, let the fallback move the system forward and retry.
		s.ctl.Misses++
		s.pos++
	}
	return s.fallback.Pick(step, opts, internal)
}

// guidedSched steers the run along a list of wanted decisions derived from a
// TLC behaviour of the design model. A wanted decision that is not available
// yet is waited for: decisions that do not occur in the rest of the list are
// taken meanwhile (they belong to steps the design model does not
// distinguish), then time is advanced; only when nothing helps is the wanted
// decision skipped and counted as a miss. Decisions that occur later in the
// list are held back - which is what keeps a goroutine parked between two of
// its steps while other actors run past it.
type guidedSched struct {
	last   map[string]int
	list   []string
	pos    int
	waited int
	ctl    *Controller
	rng    *rand.Rand
}

func (s *guidedSched) took(step int, key string, i int) int {
	if s.last == nil {
		s.last = map[string]int{}
	}
	a := actorOf(key)
	s.last[a] = step
	// a command goroutine and its operator lane are one actor for this purpose
	if len(a) > 2 && a[:2] == "c:" {
		s.last["lane0"] = step
	}
	return i
}

func (s *guidedSched) Pick(step int, opts []string, internal []bool) int {
	for s.pos < len(s.list) {
		want := s.list[s.pos]
		for i, o := range opts {
			if o == want {
				s.pos++
				s.waited = 0
				s.ctl.Hits++
				return s.took(step, o, i)
			}
		}
		if want == "advance" { // time cannot advance now (urgent step pending): let the others run
			s.pos++
			continue
		}
		later := map[string]bool{}
		for _, k := range s.list[s.pos:] {
			later[k] = true
		}
		var free []int
		for i, o := range opts {
			if o != "advance" && !later[o] {
				free = append(free, i)
			}
		}
		if len(free) > 0 {
			// prefer actors the design model does not know at all over un-modelled
			// steps of actors it does know (those are more likely being held on purpose)
			known := map[string]bool{}
			for _, k := range s.list {
				known[actorOf(k)] = true
			}
			// first: the actor that will produce the wanted decision
			wa := actorOf(want)
			for _, i := range free {
				a := actorOf(opts[i])
				if a == wa || (wa == "lane0" && len(a) > 2 && a[:2] == "c:") {
					return s.took(step, opts[i], i)
				}
			}
			for _, i := range free {
				if !known[actorOf(opts[i])] {
					return s.took(step, opts[i], i)
				}
			}
			// all belong to known actors: continue the one that moved most recently (a step that is
			// atomic in the design model is several yields in the code)
			best, bestAt := free[0], -1
			for _, i := range free {
				if at, ok := s.last[actorOf(opts[i])]; ok && at > bestAt {
					best, bestAt = i, at
				}
			}
			return s.took(step, opts[best], best)
		}
		if s.waited < 80 {
			for i, o := range opts {
				if o == "advance" {
					s.waited++
					return i
				}
			}
		}
		s.ctl.Misses++
		s.ctl.Missed = append(s.ctl.Missed, want)
		s.pos++
		s.waited = 0
	}
	// list exhausted: run everything to completion, internal steps first
	for i := range opts {
		if internal[i] {
			return i
		}
	}
	for i, o := range opts {
		if o != "advance" {
			return i
		}
	}
	return len(opts) - 1
}

func fmtKey(point, actor string) string { return fmt.Sprintf("%s@%s", point, actor) }
