package harness

import (
	"bufio"
	"encoding/json"
	"io"
	"sort"
	"sync"
	"time"
)

// Recorder writes one ndjson line per event. Every event gets a global
// sequence number taken under the recorder's lock and the virtual time (ms
// since the scenario began).
type Recorder struct {
	mu    sync.Mutex
	w     *bufio.Writer
	seq   int
	start time.Time
	scn   int
	lastT int // virtual time of the last event (for events reported from outside the bubble)
	// counts per event name, for evidence
	Counts map[string]int
	// last events of the current scenario (for diagnostics)
	mem []map[string]any
}

func NewRecorder(w io.Writer) *Recorder {
	return &Recorder{w: bufio.NewWriterSize(w, 1<<20), Counts: map[string]int{}}
}

func (r *Recorder) Begin(scn int, start time.Time) {
	r.mu.Lock()
	defer r.mu.Unlock()
	r.scn = scn
	r.start = start
	r.mem = r.mem[:0]
}

type KV map[string]any

func (r *Recorder) Emit(ev string, kv KV) {
	r.mu.Lock()
	defer r.mu.Unlock()
	r.emitLocked(ev, kv, int(time.Since(r.start)/time.Millisecond))
}

// SeqNow: sequence number of the last event written.
func (r *Recorder) SeqNow() (seq, scn int) {
	r.mu.Lock()
	defer r.mu.Unlock()
	return r.seq, r.scn
}

// EmitIfSeq records an observation made from outside the bubble (real-time sampler) - but only if no event was
// written since the observation began (seq, scn unchanged), so that its place in the log is exact. It carries the
// virtual time of the preceding event.
func (r *Recorder) EmitIfSeq(seq, scn int, ev string, kv KV) bool {
	r.mu.Lock()
	defer r.mu.Unlock()
	if r.seq != seq || r.scn != scn {
		return false
	}
	r.emitLocked(ev, kv, r.lastT)
	return true
}

func (r *Recorder) emitLocked(ev string, kv KV, t int) {
	r.seq++
	r.lastT = t
	m := map[string]any{"ev": ev, "seq": r.seq, "scn": r.scn, "t": t}
	for k, v := range kv {
		m[k] = v
	}
	r.Counts[ev]++
	r.mem = append(r.mem, m)
	// deterministic key order
	keys := make([]string, 0, len(m))
	for k := range m {
		keys = append(keys, k)
	}
	sort.Strings(keys)
	r.w.WriteByte('{')
	for i, k := range keys {
		if i > 0 {
			r.w.WriteByte(',')
		}
		kb, _ := json.Marshal(k)
		vb, err := json.Marshal(m[k])
		if err != nil {
			vb, _ = json.Marshal(err.Error())
		}
		r.w.Write(kb)
		r.w.WriteByte(':')
		r.w.Write(vb)
	}
	r.w.WriteString("}\n")
}

func (r *Recorder) Flush() {
	r.mu.Lock()
	defer r.mu.Unlock()
	r.w.Flush()
}

func (r *Recorder) Now() int {
	return int(time.Since(r.start) / time.Millisecond)
}
