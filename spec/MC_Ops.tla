------------------------------ MODULE MC_Ops ------------------------------
(* Command histories over all command kinds and injected faults; labels    *)
(* carry indices into the option tables (mirrored in tools/routing.py).    *)
EXTENDS Ops

CONSTANTS Names, MaxServices

AD   == <<"a", "d">>
WD   == <<"*", "d">>
BAD  == <<"b", "a", "d">>
Dflt == <<>>
Root == <<>>
Api  == <<"api">>

HostSets == << {Dflt}, {AD}, {WD}, {BAD}, {AD, BAD} >>
PathSets == << {Root}, {Api}, {Root, Api} >>
TlsOpts  == << [tls |-> FALSE, redirect |-> TRUE, acme |-> FALSE],
               [tls |-> TRUE,  redirect |-> FALSE, acme |-> FALSE],
               [tls |-> TRUE,  redirect |-> TRUE, acme |-> TRUE] >>
FaultSeq == << "none", "invalid_target", "unhealthy", "cert", "error_pages" >>
Msgs     == << "", "back soon", "closed <b>for</b> maintenance & repairs" >>

VARIABLES tbl, ext, last

Opt(hi, pi, ti) ==
  [hosts |-> HostSets[hi], paths |-> PathSets[pi], tls |-> TlsOpts[ti].tls, redirect |-> TlsOpts[ti].redirect,
   acme |-> TlsOpts[ti].acme]

Init == tbl = <<>> /\ ext = <<>> /\ last = "none"

Do(kind, s, o, f, a) ==
  LET errs == Errors(tbl, ext, kind, s, o, f) IN
  IF errs = {} THEN /\ tbl' = TblAfter(tbl, kind, s, o)
                    /\ ext' = ExtAfter(tbl, ext, kind, s, a)
                    /\ last' = "ok"
  ELSE /\ UNCHANGED <<tbl, ext>>
       /\ last' \in errs

NoOpt == [hosts |-> {}, paths |-> {}, tls |-> FALSE, redirect |-> FALSE, acme |-> FALSE]

OpDeploy(s, hi, pi, ti, fi) ==
  /\ s \in DOMAIN tbl \/ Cardinality(DOMAIN tbl) < MaxServices
  /\ TlsOpts[ti].tls => (Dflt \notin HostSets[hi] /\ Root \in PathSets[pi])
  /\ TlsOpts[ti].acme => \E h \in HostSets[hi] : IsWild(h)
  /\ FaultSeq[fi] = "cert" => (TlsOpts[ti].tls /\ ~TlsOpts[ti].acme)
  /\ Do("deploy", s, Opt(hi, pi, ti), FaultSeq[fi], 0)
OpRolloutDeploy(s, fi) == FaultSeq[fi] \in {"none", "invalid_target", "unhealthy"} /\ Do("rollout_deploy", s, NoOpt, FaultSeq[fi], 0)
OpRolloutSet(s, a)  == Do("rollout_set", s, NoOpt, "none", a)
OpRolloutStop(s)    == Do("rollout_stop", s, NoOpt, "none", 0)
OpPause(s)          == Do("pause", s, NoOpt, "none", 0)
OpStop(s, mi)       == Do("stop", s, NoOpt, "none", Msgs[mi])
OpResume(s)         == Do("resume", s, NoOpt, "none", 0)
OpRemove(s)         == Do("remove", s, NoOpt, "none", 0)
OpRestart           == UNCHANGED <<tbl, ext>> /\ last' = "restart"

Next ==
  \/ \E s \in Names, hi \in 1..Len(HostSets), pi \in 1..Len(PathSets), ti \in 1..Len(TlsOpts), fi \in 1..Len(FaultSeq) : OpDeploy(s, hi, pi, ti, fi)
  \/ \E s \in Names, fi \in 1..Len(FaultSeq) : OpRolloutDeploy(s, fi)
  \/ \E s \in Names, a \in 1..2 : OpRolloutSet(s, a)
  \/ \E s \in Names : OpRolloutStop(s) \/ OpPause(s) \/ OpResume(s) \/ OpRemove(s)
  \/ \E s \in Names, mi \in 1..Len(Msgs) : OpStop(s, mi)
  \/ OpRestart

Spec == Init /\ [][Next]_<<tbl, ext, last>>
View == <<tbl, ext>>

Inv_Shape == DOMAIN ext = DOMAIN tbl
Inv_Ownership == Ownership(tbl)
\* C10: a split exists only where rollout targets exist
Inv_SplitNeedsTargets == \A s \in DOMAIN ext : ext[s].split # 0 => ext[s].rollout
\* C06: a command that reports an error changes nothing; C11: neither does a restart
Act_FailChangesNothing == [][last' \notin {"ok"} => (tbl' = tbl /\ ext' = ext)]_<<tbl, ext, last>>
===========================================================================
