package harness

import (
	"bufio"
	"context"
	"fmt"
	"io"
	"math/rand"
	"net"
	"net/http"
	"os"
	"path/filepath"
	"strconv"
	"strings"
	"testing"
	"testing/synctest"
	"time"
)

// rawTarget: a target that speaks bytes, so that its connection can fail at any point (C15).
type rawTarget struct {
	w    *World
	name string
	ln   net.Listener
}

func newRawTarget(w *World, name string) *rawTarget {
	ln, err := w.net.Listen(name)
	if err != nil {
		panic(err)
	}
	rt := &rawTarget{w: w, name: name, ln: ln}
	w.closers = append(w.closers, func() { ln.Close() })
	go func() {
		for {
			c, err := ln.Accept()
			if err != nil {
				return
			}
			go rt.serve(c)
		}
	}()
	return rt
}

func (rt *rawTarget) serve(c net.Conn) {
	defer c.Close()
	br := bufio.NewReader(c)
	for {
		req, err := http.ReadRequest(br)
		if err != nil {
			return
		}
		io.Copy(io.Discard, req.Body)
		if req.URL.Path == "/up" {
			fmt.Fprintf(c, "HTTP/1.1 200 OK\r\nContent-Length: 2\r\nConnection: close\r\n\r\nok")
			return
		}
		parts := strings.Split(req.Header.Get("X-Verif-Fault"), ":")
		stall := 0
		if len(parts) > 1 {
			stall, _ = strconv.Atoi(parts[1])
		}
		body := strings.Repeat("0123456789", 100) // 1000 bytes
		switch parts[0] {
		case "reset0":
			return
		case "garbage":
			c.Write([]byte("\x00\x01 this is not HTTP\r\n\r\n"))
			return
		case "midhdr":
			c.Write([]byte("HTTP/1.1 200 OK\r\nContent-Type: text/pl"))
			return
		case "midbody":
			fmt.Fprintf(c, "HTTP/1.1 200 OK\r\nContent-Type: text/plain\r\nX-Verif-Origin: %s\r\nContent-Length: 1000\r\n\r\n%s", rt.name, body[:100])
			return
		case "midchunk":
			fmt.Fprintf(c, "HTTP/1.1 200 OK\r\nContent-Type: text/plain\r\nX-Verif-Origin: %s\r\nTransfer-Encoding: chunked\r\n\r\n64\r\n%s\r\n64\r\n%s", rt.name, body[:100], body[:40])
			return
		case "silence":
			select {
			case <-time.After(ms(stall)):
			case <-rt.w.stop:
				return
			}
			fmt.Fprintf(c, "HTTP/1.1 200 OK\r\nContent-Type: text/plain\r\nX-Verif-Origin: %s\r\nContent-Length: 1000\r\nConnection: close\r\n\r\n%s", rt.name, body)
			return
		default:
			fmt.Fprintf(c, "HTTP/1.1 200 OK\r\nContent-Type: text/plain\r\nX-Verif-Origin: %s\r\nContent-Length: 1000\r\nConnection: close\r\n\r\n%s", rt.name, body)
			return
		}
	}
}

// RunFaults: C15.
func RunFaults(t *testing.T, scn int, seed int64, n int, rec *Recorder, dir string) {
	// custom error pages: one service has its own 502 page, one its own 502 and 504 pages
	mk := func(name string, codes ...int) string {
		d := filepath.Join(dir, name)
		os.MkdirAll(d, 0o755)
		for _, c := range codes {
			os.WriteFile(filepath.Join(d, fmt.Sprintf("%d.html", c)), []byte(fmt.Sprintf("<html>CUSTOM%d[{{ .Message }}]MOTSUC</html>", c)), 0o644)
		}
		return d
	}
	pages1 := mk("pages502", 502)
	pages2 := mk("pagesboth", 502, 504)
	synctest.Test(t, func(t *testing.T) {
		rng := rand.New(rand.NewSource(seed))
		type fsvc struct {
			host    string
			timeout int
			pages   string
			custom  []int
			buf     bool
		}
		svcs := []fsvc{
			{"f1.test", 1000, "", nil, false},
			{"f2.test", 700, pages1, []int{502}, false},
			{"f3.test", 1500, pages2, []int{502, 504}, false},
			{"f4.test", 1000, "", nil, true},
		}
		plan := &Plan{Family: "faults", Sched: "free", Targets: map[string]TargetScript{}}
		w := &World{t: t, plan: plan, rec: rec, dir: dir}
		w.setup(scn)
		refused := map[string]bool{}
		base := w.net.DialHook
		w.net.DialHook = func(kind, addr string) error {
			if kind == "req" && refused[addr] {
				return errRefused
			}
			return base(kind, addr)
		}
		w.rec.Emit("reset", KV{"family": "faults", "urgent": true, "seed": seed, "note": ""})
		for i, s := range svcs {
			tn := fmt.Sprintf("raw%d", i+1)
			newRawTarget(w, tn)
			w.execCmd(Cmd{ID: fmt.Sprintf("c%d", i+1), Kind: "deploy", Svc: fmt.Sprintf("F%d", i+1), Hosts: []string{s.host}, Targets: []string{tn},
				RespTimeoutMs: s.timeout, ErrorPages: s.pages, BufReq: s.buf, BufResp: s.buf, MaxMem: 512, DeployTimeoutMs: 2000, DrainTimeoutMs: 500})
		}
		kinds := []string{"refuse", "reset0", "garbage", "midhdr", "midbody", "midchunk", "silence", "silence", "ok"}
		inflightOf := func() int { return w.claims() }
		for i := 0; i < n; i++ {
			if i == n/2 {
				// every service is redeployed onto the same target address with another target timeout: from here on
				// the new timeouts are the ones that count
				for j := range svcs {
					svcs[j].timeout += []int{500, -300, 700, -400}[j%4]
					s := svcs[j]
					w.execCmd(Cmd{ID: fmt.Sprintf("d%d", j+1), Kind: "deploy", Svc: fmt.Sprintf("F%d", j+1), Hosts: []string{s.host}, Targets: []string{fmt.Sprintf("raw%d", j+1)},
						RespTimeoutMs: s.timeout, ErrorPages: s.pages, BufReq: s.buf, BufResp: s.buf, MaxMem: 512, DeployTimeoutMs: 2000, DrainTimeoutMs: 500})
				}
			}
			si := rng.Intn(len(svcs))
			s := svcs[si]
			tn := fmt.Sprintf("raw%d", si+1)
			id := fmt.Sprintf("f%d", i)
			fault := kinds[rng.Intn(len(kinds))]
			stall := 0
			if fault == "silence" {
				stall = []int{s.timeout - 333, s.timeout - 1, s.timeout + 1, s.timeout + 333, 3 * s.timeout}[rng.Intn(5)]
			}
			refused[tn] = fault == "refuse"
			sent := w.rec.Now()
			rq := rawReq{id: id, method: []string{"GET", "POST"}[rng.Intn(2)], path: "/x", host: s.host}
			rq.headers = [][2]string{{"X-Verif-Fault", fmt.Sprintf("%s:%d", fault, stall)}, {"X-Request-Id", id}}
			if rq.method == "POST" {
				rq.body = patternBody(800, 1)
			}
			resp := w.rawDo(rq)
			at := w.rec.Now()
			synctest.Wait()
			refused[tn] = false
			page, wellformed := "", true
			if resp.status == 502 || resp.status == 504 {
				switch {
				case customRe.Match(resp.body):
					page = "custom"
				case strings.Contains(string(resp.body), "<!doctype html>") || strings.Contains(string(resp.body), "<html"):
					page = "builtin"
				default:
					page = "none"
				}
				wellformed = resp.err == "" && strings.HasPrefix(resp.header.Get("Content-Type"), "text/html")
			}
			cut := resp.err != "" || resp.status == 0
			complete := resp.err == "" && resp.status == 200 && len(resp.body) == 1000
			w.rec.Emit("fault_obs", KV{"id": id, "fault": fault, "stall": stall, "timeout": s.timeout, "custom": intsOrEmpty(s.custom), "buffered": s.buf,
				"status": resp.status, "page": page, "cut": cut, "complete": complete, "wellformed": wellformed, "sent": sent, "at": at, "inflight": inflightOf(), "err": resp.err})
			if rng.Intn(6) == 0 {
				// residue check: the service still serves, and a drain has nothing to wait for
				ok := w.rawDo(rawReq{id: id + "k", method: "GET", path: "/x", host: s.host, headers: [][2]string{{"X-Verif-Fault", "ok:0"}}})
				t0 := w.rec.Now()
				w.execCmd(Cmd{ID: id + "p", Kind: "pause", Svc: fmt.Sprintf("F%d", si+1), DrainTimeoutMs: 2000, MaxPauseMs: 1000})
				d := w.rec.Now() - t0
				w.execCmd(Cmd{ID: id + "r", Kind: "resume", Svc: fmt.Sprintf("F%d", si+1)})
				w.rec.Emit("fault_after", KV{"id": id, "status": ok.status, "drain_ms": d})
			}
		}
		time.Sleep(6 * time.Second)
		synctest.Wait()
		w.rec.Emit("end", nil)
		w.teardown()
	})
}

func intsOrEmpty(a []int) []int {
	if a == nil {
		return []int{}
	}
	return a
}

var _ = context.Background
