------------------------------ MODULE Routing ------------------------------
(***************************************************************************)
(* The routing function of the proxy (C04), ownership of host+path pairs   *)
(* (C05) and the TLS policy that hangs off the routing table (C16), as     *)
(* pure functions of the table of deployed services.                       *)
(*                                                                         *)
(* A host is a sequence of labels ("b.a.d" = <<"b","a","d">>, the default  *)
(* binding is <<>>, a wildcard binding starts with "*").  A path is a      *)
(* sequence of segments ("/api/v1" = <<"api","v1">>, "/" = <<>>,           *)
(* "/api/" = <<"api","">>, "/api//x" = <<"api","","x">>).                   *)
(*                                                                         *)
(* A table is a function from service names to records                     *)
(*   [hosts: set of hosts, paths: set of prefixes, tls, redirect, acme,    *)
(*    tgt: name of its target]                                             *)
(* Services not deployed are absent from the domain.                       *)
(***************************************************************************)
EXTENDS Integers, Sequences, FiniteSets, TLC

IsPrefix(p, q) == Len(p) <= Len(q) /\ \A i \in 1..Len(p) : p[i] = q[i]
Tail1(s) == IF Len(s) = 0 THEN <<>> ELSE SubSeq(s, 2, Len(s))

\* every (host pattern, prefix) pair bound in the table, with its owner
Pairs(tbl) == {<<s, h, p>> : s \in DOMAIN tbl, h \in UNION {tbl[x].hosts : x \in DOMAIN tbl},
                             p \in UNION {tbl[x].paths : x \in DOMAIN tbl}}
Bindings(tbl) == {b \in Pairs(tbl) : b[2] \in tbl[b[1]].hosts /\ b[3] \in tbl[b[1]].paths}

\* C05: no pair has two owners
Ownership(tbl) == \A a, b \in Bindings(tbl) : (a[2] = b[2] /\ a[3] = b[3]) => a[1] = b[1]

\* the level at which host h is looked up: exact, then "*." + parent domain, then the default
HostsBound(tbl) == {b[2] : b \in Bindings(tbl)}
Level(tbl, h) ==
  IF h \in HostsBound(tbl) THEN h
  ELSE IF Len(h) >= 2 /\ (<<"*">> \o Tail1(h)) \in HostsBound(tbl) THEN <<"*">> \o Tail1(h)
  ELSE <<>>

\* candidates at that level whose prefix matches on a segment boundary
Matches(tbl, h, p) == {b \in Bindings(tbl) : b[2] = Level(tbl, h) /\ IsPrefix(b[3], p)}

NoRoute == "404"
\* the service that handles (h, p): the longest matching prefix at the level; 404 if none
Route(tbl, h, p) ==
  LET m == Matches(tbl, h, p) IN
  IF m = {} THEN NoRoute
  ELSE (CHOOSE b \in m : \A c \in m : Len(c[3]) <= Len(b[3]))[1]

\* the prefix that matched (for prefix stripping)
RoutePrefix(tbl, h, p) ==
  LET m == Matches(tbl, h, p) IN
  IF m = {} THEN <<>> ELSE (CHOOSE b \in m : \A c \in m : Len(c[3]) <= Len(b[3]))[3]

\* Under Ownership the longest match is unique, so Route is a function of the table alone.
RouteWellDefined(tbl, h, p) ==
  LET m == Matches(tbl, h, p) IN
  \A a, b \in m : (Len(a[3]) = Len(b[3])) => a = b

(***************************************************************************)
(* Commands on the table (sequential semantics)                            *)
(***************************************************************************)
\* a deploy of service s with the given bindings conflicts if a pair it claims is owned by another service
Conflicts(tbl, s, hosts, paths) ==
  \E b \in Bindings(tbl) : b[1] # s /\ b[2] \in hosts /\ b[3] \in paths

\* a wildcard host cannot get automatic (ACME) certificates
IsWild(h) == Len(h) > 0 /\ h[1] = "*"
AcmeWild(o) == o.tls /\ o.acme /\ \E h \in o.hosts : IsWild(h)

DeployResult(tbl, s, o) ==
  IF AcmeWild(o) THEN "acme_wildcard"
  ELSE IF Conflicts(tbl, s, o.hosts, o.paths) THEN "host_in_use"
  ELSE "ok"

Deploy(tbl, s, o) == IF DeployResult(tbl, s, o) = "ok" THEN (s :> o) @@ tbl ELSE tbl
Remove(tbl, s) == [x \in DOMAIN tbl \ {s} |-> tbl[x]]

(***************************************************************************)
(* TLS policy (C16)                                                        *)
(***************************************************************************)
ServesRoot(o) == <<>> \in o.paths

\* the TLS flags in force for service s: its own if it serves the root path, else those of the service on the
\* root path of its host (off if there is none)
FirstHost(o) == CHOOSE h \in o.hosts : TRUE
Effective(tbl, s) ==
  IF ServesRoot(tbl[s]) THEN [tls |-> tbl[s].tls, redirect |-> tbl[s].redirect]
  ELSE LET root == Route(tbl, FirstHost(tbl[s]), <<>>) IN
       IF root = NoRoute THEN [tls |-> FALSE, redirect |-> TRUE]
       ELSE [tls |-> tbl[root].tls, redirect |-> tbl[root].redirect]

\* what the proxy does with a request: "404", "301", "503" or the service that serves it
Decision(tbl, https, h, p) ==
  LET s == Route(tbl, h, p) IN
  IF s = NoRoute THEN "404"
  ELSE LET e == Effective(tbl, s) IN
       IF e.tls /\ e.redirect /\ ~https THEN "301"
       ELSE IF ~e.tls /\ https THEN "503"
       ELSE s

\* a certificate is served for server name h iff h routes (at "/") to a service deployed with TLS
Cert(tbl, h) ==
  LET s == Route(tbl, h, <<>>) IN
  IF s = NoRoute THEN "none" ELSE IF tbl[s].tls THEN s ELSE "none"
=============================================================================
