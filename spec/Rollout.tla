------------------------------ MODULE Rollout ------------------------------
(***************************************************************************)
(* C10: the rollout decision.  The proxy may use any hash it likes: the    *)
(* specification only says that there is a threshold Theta[v] in 0..100    *)
(* for every cookie value v such that, with rollout targets deployed and   *)
(* a split (pct, allow) set,                                               *)
(*                                                                         *)
(*   UsesRollout(v, pct, allow) = v present /\ v # "" /\                   *)
(*                                (v \in allow \/ Theta[v] <= pct)         *)
(*                                                                         *)
(* Stickiness (a pure function of the value), monotonicity in pct and      *)
(* "100 % includes every value" follow for every Theta; TLC checks that    *)
(* over all Theta on a small value set.  RolloutTrace narrows bounds on    *)
(* Theta from the recorded decisions of the real proxy and rejects the     *)
(* first line no Theta can explain.                                        *)
(***************************************************************************)
EXTENDS Integers, FiniteSets

CONSTANTS Values, Pcts      \* Pcts: the percentages (and thresholds) explored by the model, a subset of 0..100

Thetas == [Values -> Pcts]

Uses(theta, v, present, pct, allow) == present /\ (v \in allow \/ theta[v] <= pct)

VARIABLES theta, pct, allow
Init == theta \in Thetas /\ pct = 0 /\ allow = {}
Next == /\ pct' \in Pcts /\ allow' \in SUBSET Values /\ UNCHANGED theta
Spec == Init /\ [][Next]_<<theta, pct, allow>>

\* monotone: a value included at one percentage stays included at every higher one (same allowlist)
Monotone == \A v \in Values, p \in Pcts, q \in Pcts :
              (p <= q /\ Uses(theta, v, TRUE, p, allow)) => Uses(theta, v, TRUE, q, allow)
Total == \A v \in Values : Uses(theta, v, TRUE, 100, allow)
OptIn == \A v \in Values, p \in Pcts : ~Uses(theta, v, FALSE, p, allow)
AllowWins == \A v \in allow, p \in Pcts : Uses(theta, v, TRUE, p, allow)
=============================================================================
