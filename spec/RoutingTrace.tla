--------------------------- MODULE RoutingTrace ---------------------------
(***************************************************************************)
(* Trace validation for the sequential families: the table of deployed     *)
(* services is rebuilt from the recorded commands with the operators of    *)
(* Routing.tla (Deploy / Remove / DeployResult), and every observed        *)
(* (host, path, scheme) -> outcome line, every certificate lookup and      *)
(* every command result is compared with Decision / Cert / DeployResult    *)
(* evaluated on that table.  A "restart" leaves the table unchanged: a     *)
(* restored proxy that routes differently is a rejected line.              *)
(***************************************************************************)
EXTENDS Routing, Json, IOUtils

Log == ndJsonDeserialize(IOEnv.VERIF_TRACE)

SetOf(s) == {s[i] : i \in 1..Len(s)}

VARIABLES l, tbl, tgt, pend, viol, cov, broken
vars == <<l, tbl, tgt, pend, viol, cov, broken>>

\* signature of known finding KF-wildcard-sync: a sub-path service on a wildcard host has inherited TLS from its root service
WildcardSync == \E s \in DOMAIN tbl : /\ ~ServesRoot(tbl[s]) /\ (\E h \in tbl[s].hosts : IsWild(h))
                                       /\ Effective(tbl, s).tls
If(b, S) == IF b /\ Cardinality(viol) < 100 THEN S ELSE {}

Init == l = 1 /\ tbl = <<>> /\ tgt = <<>> /\ pend = <<>> /\ viol = {} /\ cov = <<>> /\ broken = FALSE /\ TLCSet(1, 0)

V(inv, subj, detail, e) == [inv |-> inv, subj |-> subj, sig |-> IF inv = "C11_restore" /\ WildcardSync THEN "wildcard-sync" ELSE "", detail |-> ToString(detail), scn |-> e.scn, line |-> l]

OptOf(e) == [hosts |-> SetOf(e.hostsL), paths |-> SetOf(e.pathsL), tls |-> e.tls, redirect |-> e.redirect, acme |-> e.acme]

Expected(c) ==
  IF c.kind = "deploy" THEN DeployResult(tbl, c.svc, OptOf(c))
  ELSE IF c.kind = "remove" THEN (IF c.svc \in DOMAIN tbl THEN "ok" ELSE "not_found")
  ELSE "ok"

Apply(c, res) ==
  IF res # "ok" THEN tbl
  ELSE IF c.kind = "deploy" THEN (c.svc :> OptOf(c)) @@ tbl
  ELSE IF c.kind = "remove" THEN Remove(tbl, c.svc)
  ELSE tbl

Bump(inv, e) == [i \in DOMAIN cov \cup {inv} |-> (IF i \in DOMAIN cov THEN cov[i] ELSE 0) + (IF i = inv THEN 1 ELSE 0)]

Step ==
  /\ l <= Len(Log)
  /\ LET e == Log[l] IN
     CASE e.ev = "reset" ->
            /\ tbl' = <<>> /\ tgt' = <<>> /\ pend' = <<>> /\ broken' = FALSE /\ UNCHANGED <<viol, cov>>
       [] e.ev = "cmd_call" ->
            /\ pend' = e /\ UNCHANGED <<tbl, tgt, viol, cov, broken>>
       [] e.ev = "cmd_ret" ->
            LET c == pend
                want == Expected(c)
                bad == e.res # want /\ ~broken
                inv == IF "host_in_use" \in {e.res, want} THEN "C05_b"
                       ELSE IF "acme_wildcard" \in {e.res, want} THEN "C16_acme"
                       ELSE IF c.kind = "restart" THEN "C11_restore" ELSE "C06_res"
            IN /\ viol' = viol \cup If(bad, {V(inv, e.c, <<"command", c.kind, c.svc, "returned", e.res, "expected", want>>, e)})
               \* the table follows the specification's result; if the code disagreed every later probe shows it
               /\ tbl' = Apply(c, want)
               /\ tgt' = IF c.kind = "deploy" /\ want = "ok" THEN (c.svc :> c.targets[1]) @@ tgt ELSE tgt
               /\ cov' = Bump(IF c.kind = "restart" THEN "C11_restore" ELSE IF want = "host_in_use" THEN "C05_b" ELSE "C06_res", e)
               /\ pend' = <<>>
               \* a restart that failed leaves an empty proxy: the rest of the scenario is not comparable
               /\ broken' = (broken \/ (c.kind = "restart" /\ bad))
       [] e.ev \in {"probe", "cert"} /\ broken -> UNCHANGED <<tbl, tgt, pend, viol, cov, broken>>
       [] e.ev = "probe" ->
            LET d == Decision(tbl, e.https, e.h, e.p)
                routed == Route(tbl, e.h, e.p)
                good == IF d = "404" THEN e.status = 404
                        ELSE IF d = "301" THEN e.status = 301 /\ e.loc_ok
                        ELSE IF d = "503" THEN e.status = 503
                        ELSE e.status = 200 /\ e.origin = tgt[d]
                tlsish == d \in {"301", "503"} \/ e.status \in {301, 503}
                inv == IF tlsish THEN "C16" ELSE "C04"
            IN /\ viol' = viol \cup If(~good, {V(inv, ToString(<<e.host, e.path>>), <<"https", e.https, "got", e.status, e.origin, "expected", d,
                                                    IF d \in DOMAIN tgt THEN tgt[d] ELSE "">>, e)})
               /\ cov' = Bump(IF routed = NoRoute THEN "C04_404" ELSE IF tlsish THEN "C16" ELSE "C04", e)
               /\ UNCHANGED <<tbl, tgt, pend, broken>>
       [] e.ev = "cert" ->
            LET want == Cert(tbl, e.h) # "none"
            IN /\ viol' = viol \cup If(e.ok # want, {V("C16_cert", e.sni, <<"certificate served", e.ok, "expected", want>>, e)})
               /\ cov' = Bump("C16_cert", e)
               /\ UNCHANGED <<tbl, tgt, pend, broken>>
       [] e.ev = "harness_error" ->
            /\ viol' = viol \cup {V("HARNESS", "", e.what, e)} /\ UNCHANGED <<tbl, tgt, pend, cov, broken>>
       [] OTHER -> UNCHANGED <<tbl, tgt, pend, viol, cov, broken>>
  /\ l' = l + 1
  /\ TLCSet(1, l)

Eof ==
  /\ l = Len(Log) + 1
  /\ JsonSerialize(IOEnv.VERIF_OUT, [lines |-> Len(Log), violations |-> viol, coverage |-> cov])
  /\ TLCSet(1, l)
  /\ l' = l + 1
  /\ UNCHANGED <<tbl, tgt, pend, viol, cov, broken>>

Next == Step \/ Eof
Spec == Init /\ [][Next]_vars
Accepted == TLCGet(1) = Len(Log) + 1
===========================================================================
