-------------------------------- MODULE Ops --------------------------------
(***************************************************************************)
(* Sequential semantics of the operator commands: what each command        *)
(* returns and what it does to the operator-visible configuration, as a    *)
(* function of the configuration it is issued in and of the fault (if any) *)
(* the environment injects.  Used for C06 (a failing command changes       *)
(* nothing), C10 (history rules of the rollout split), C11 (a restart      *)
(* changes nothing) and, through Routing, C04 / C05 / C16.                 *)
(*                                                                         *)
(* Configuration = routing table tbl (Routing.tla) + per service           *)
(*   ext[s] = [rollout: BOOLEAN, split: 0..2, pstate, msg]                 *)
(*   split: 0 = none, 1 = allowlist {"vip"} only (0 %), 2 = 100 % + "vip"  *)
(***************************************************************************)
EXTENDS Routing

NewExt == [rollout |-> FALSE, split |-> 0, pstate |-> "running", msg |-> ""]

Faults == {"none", "invalid_target", "unhealthy", "cert", "error_pages"}

\* the error classes a command may legitimately report (empty = it must succeed)
Errors(tbl, ext, kind, s, o, f) ==
  CASE kind = "deploy" ->
         (IF AcmeWild(o) THEN {"acme_wildcard"} ELSE {})
         \cup (IF f # "none" THEN {f} ELSE {})
         \cup (IF Conflicts(tbl, s, o.hosts, o.paths) THEN {"host_in_use"} ELSE {})
    [] kind = "rollout_deploy" ->
         IF s \notin DOMAIN tbl THEN {"not_found"} ELSE (IF f # "none" THEN {f} ELSE {})
    [] kind = "rollout_set" ->
         IF s \notin DOMAIN tbl THEN {"not_found"} ELSE IF ~ext[s].rollout THEN {"rollout_not_set"} ELSE {}
    [] kind \in {"rollout_stop", "pause", "stop", "resume", "remove"} ->
         IF s \notin DOMAIN tbl THEN {"not_found"} ELSE {}
    [] OTHER -> {}

\* the configuration after a command that succeeded
TblAfter(tbl, kind, s, o) ==
  IF kind = "deploy" THEN (s :> o) @@ tbl
  ELSE IF kind = "remove" THEN Remove(tbl, s)
  ELSE tbl

ExtAfter(tbl, ext, kind, s, a) ==
  CASE kind = "deploy" -> IF s \in DOMAIN ext THEN ext ELSE (s :> NewExt) @@ ext    \* a redeploy keeps pause and rollout state
    [] kind = "remove" -> [x \in DOMAIN ext \ {s} |-> ext[x]]
    [] kind = "rollout_deploy" -> [ext EXCEPT ![s].rollout = TRUE]
    [] kind = "rollout_set" -> [ext EXCEPT ![s].split = a]
    [] kind = "rollout_stop" -> [ext EXCEPT ![s].split = 0]
    [] kind = "pause" -> [ext EXCEPT ![s].pstate = "paused", ![s].msg = ""]
    [] kind = "stop" -> [ext EXCEPT ![s].pstate = "stopped", ![s].msg = a]
    [] kind = "resume" -> [ext EXCEPT ![s].pstate = "running", ![s].msg = ""]
    [] OTHER -> ext

\* does a request with this rollout cookie value ("" = no cookie) go to the rollout targets of s?
UsesRollout(ext, s, cookie) ==
  /\ ext[s].rollout /\ ext[s].split # 0 /\ cookie # ""
  /\ cookie = "vip" \/ ext[s].split = 2
=============================================================================
