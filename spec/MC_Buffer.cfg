SPECIFICATION Spec
CONSTANTS
  MaxMemMax = 3
  MaxBytesMax = 5
  BodyMax = 7
INVARIANTS
  Inv_Mem
  Inv_Conserved
  Inv_Overflow
  Inv_SpillOnlyWhenNeeded
CHECK_DEADLOCK FALSE
