--------------------------------- MODULE Cli ---------------------------------
(***************************************************************************)
(* C20: decision tables of the command line.                               *)
(*   Opt       where `kamal-proxy run` takes an option from                *)
(*   DeployOk  which flag combinations `deploy` refuses before it contacts *)
(*             the proxy                                                   *)
(*   Exit      exit status of the client commands                          *)
(***************************************************************************)
EXTENDS Integers, Sequences, FiniteSets

\* a source is "absent", "bad" (malformed; only possible for environment variables) or a value
Opt(flag, prefixed, bare, default) ==
  IF flag # "absent" THEN flag
  ELSE IF prefixed # "absent" THEN (IF prefixed = "bad" THEN default ELSE prefixed)
  ELSE IF bare # "absent" THEN (IF bare = "bad" THEN default ELSE bare)
  ELSE default

\* flags: [tls, host, rootPath, maxReq, bufReq, maxResp, bufResp] (booleans: the flag was given / the condition holds)
DeployErrors(f) ==
  (IF f.maxReq /\ ~f.bufReq THEN {"max-request-body"} ELSE {})
  \cup (IF f.maxResp /\ ~f.bufResp THEN {"max-response-body"} ELSE {})
  \cup (IF f.tls /\ ~f.host THEN {"tls-host"} ELSE {})
  \cup (IF f.tls /\ f.host /\ ~f.rootPath THEN {"tls-root"} ELSE {})
DeployOk(f) == DeployErrors(f) = {}

\* a client command exits non-zero exactly when the proxy reports an error (or was refused before)
Exit(outcome) == IF outcome = "ok" THEN 0 ELSE 1

Sources == {"absent", "v1", "v2"}
EnvSources == Sources \cup {"bad"}
VARIABLES flag, prefixed, bare
Init == flag \in Sources /\ prefixed \in EnvSources /\ bare \in EnvSources
Next == UNCHANGED <<flag, prefixed, bare>>
Spec == Init /\ [][Next]_<<flag, prefixed, bare>>
\* the flag always wins; a malformed variable never leaks and never lets a lower-priority source through
Inv_FlagWins == flag # "absent" => Opt(flag, prefixed, bare, "d") = flag
Inv_NeverBad == Opt(flag, prefixed, bare, "d") # "bad"
Inv_BadMeansDefault == (flag = "absent" /\ prefixed = "bad") => Opt(flag, prefixed, bare, "d") = "d"
=============================================================================
