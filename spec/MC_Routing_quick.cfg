SPECIFICATION Spec
CONSTANTS
  Names = {"s1", "s2"}
  MaxServices = 2
VIEW View
PROPERTIES
  Act_RejectedChangesNothing
INVARIANTS
  Inv_Ownership
  Inv_RouteWellDefined
  Inv_RouteSound
  Inv_Cert
  Inv_Decision
CHECK_DEADLOCK FALSE
