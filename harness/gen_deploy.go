package harness

import (
	"fmt"
	"math/rand"
)

// Generators for the concurrency families. Every generator is a pure function
// of (seed, index): plans are reproducible and serialisable.

func offGrid(rng *rand.Rand, lo, hi int) int {
	// a delay in [lo,hi) ms that is never a multiple of 50 (avoids timer ties)
	for {
		v := lo + rng.Intn(hi-lo)
		if v%50 != 0 {
			return v
		}
	}
}

func probeScriptHealthy(rng *rand.Rand) TargetScript {
	return TargetScript{Then: ProbeOutcome{Class: "ok", DelayMs: rng.Intn(3) * 7}}
}

// a target that becomes healthy after k failures of mixed classes
func probeScriptAfterFailures(rng *rand.Rand, k int) TargetScript {
	s := TargetScript{Then: ProbeOutcome{Class: "ok"}}
	for i := 0; i < k; i++ {
		s.Probes = append(s.Probes, failingProbe(rng))
	}
	return s
}

func failingProbe(rng *rand.Rand) ProbeOutcome {
	switch rng.Intn(4) {
	case 0:
		return ProbeOutcome{Class: "refuse"}
	case 1:
		return ProbeOutcome{Class: "bad", Status: []int{500, 503, 404, 302, 418, 300}[rng.Intn(6)]}
	case 2:
		return ProbeOutcome{Class: "slow", DelayMs: offGrid(rng, 510, 900)} // slower than the 500 ms probe timeout
	default:
		return ProbeOutcome{Class: "bad", Status: 500, DelayMs: offGrid(rng, 10, 400)}
	}
}

func probeScriptNever(rng *rand.Rand) TargetScript {
	return TargetScript{Then: failingProbe(rng)}
}

func randReqKind(rng *rand.Rand, r *Req, drainMs int) {
	switch x := rng.Intn(10); {
	case x < 5:
		r.Kind = "plain"
	case x < 8:
		r.Kind = "slow"
		r.HoldMs = offGrid(rng, 20, drainMs+600)
		r.Chunked = r.HoldMs%3 == 0 // a response that is already under way when the hold begins
	case x < 9:
		r.Kind = "forever"
	default:
		if rng.Intn(3) == 0 {
			r.Kind = "slowupgrade"
			r.HoldMs = offGrid(rng, 20, drainMs+300)
		} else {
			r.Kind = "upgrade"
		}
	}
}

func pickSched(rng *rand.Rand, p *Plan) {
	switch rng.Intn(4) {
	case 0:
		p.Sched = "random"
	case 1:
		p.Sched = "pct"
		p.Depth = 1 + rng.Intn(4)
	default:
		p.Sched = "freeze"
	}
}

// GenDeploy: one service, a series of deploys (some failing), requests of all
// kinds arriving at any time. Serves C01 C02 C03 C17.
func GenDeploy(seed int64, idx int, tier string) *Plan {
	rng := rand.New(rand.NewSource(seed*1000003 + int64(idx)))
	p := &Plan{Family: "deploy", Seed: seed*1000003 + int64(idx), Targets: map[string]TargetScript{}, QuantumMs: 100, SettleMs: 9000}
	p.Urgent = rng.Intn(3) > 0
	pickSched(rng, p)
	if idx%8 == 7 {
		return sickTargetTemplate(rng, p, "deploy")
	}
	nDeploys := 2 + rng.Intn(2)
	if tier == "thorough" {
		nDeploys = 2 + rng.Intn(3)
	}
	tn := 0
	var lane []Cmd
	drain := 0
	mode := rng.Intn(4) // 0: all healthy (C02 focus); 1-3: mixed
	for d := 0; d < nDeploys; d++ {
		c := Cmd{ID: fmt.Sprintf("c%d", d+1), Kind: "deploy", Svc: "A", Hosts: []string{"a.test"},
			DeployTimeoutMs: []int{1000, 1500, 2500, 3500}[rng.Intn(4)], DrainTimeoutMs: []int{500, 1000, 2000, 3000}[rng.Intn(4)]}
		drain = c.DrainTimeoutMs
		n := 1 + rng.Intn(3)
		for i := 0; i < n; i++ {
			tn++
			name := fmt.Sprintf("t%d", tn)
			c.Targets = append(c.Targets, name)
			var s TargetScript
			switch {
			case mode == 0 || rng.Intn(3) == 0:
				s = probeScriptHealthy(rng)
			case rng.Intn(3) == 0:
				s = probeScriptNever(rng)
			default:
				s = probeScriptAfterFailures(rng, 1+rng.Intn(4))
			}
			// after becoming healthy, maybe flap later
			if mode == 3 && rng.Intn(2) == 0 && s.Then.Class == "ok" {
				for i := 0; i < 2+rng.Intn(3); i++ {
					s.Probes = append(s.Probes, ProbeOutcome{Class: "ok"})
				}
				s.Probes = append(s.Probes, failingProbe(rng))
			}
			p.Targets[name] = s
		}
		if d > 0 && rng.Intn(3) == 0 {
			c.WaitMs = offGrid(rng, 10, 1500)
		}
		lane = append(lane, c)
	}
	p.Lanes = [][]Cmd{lane}
	nCli := 1 + rng.Intn(3)
	rn := 0
	for l := 0; l < nCli; l++ {
		var cl []Req
		for i := 0; i < 2+rng.Intn(3); i++ {
			rn++
			r := Req{ID: fmt.Sprintf("r%d", rn), Svc: "A", Host: "a.test", Path: "/x"}
			randReqKind(rng, &r, drain)
			if rng.Intn(3) == 0 {
				r.WaitMs = offGrid(rng, 10, 2500)
			}
			if i == 0 && rng.Intn(4) > 0 {
				r.After = "c1"
			}
			cl = append(cl, r)
		}
		p.Clients = append(p.Clients, cl)
	}
	return p
}

// sickTargetTemplate: a target stops answering its probes while requests it accepted are still running; then a command
// that drains it (redeploy, pause or stop) is issued before a probe succeeds again. The target is out of rotation but
// not idle: the command still has to wait for those requests, or cut them at the deadline.
func sickTargetTemplate(rng *rand.Rand, p *Plan, family string) *Plan {
	ok := ProbeOutcome{Class: "ok"}
	bad := func() ProbeOutcome {
		return []ProbeOutcome{{Class: "refuse"}, {Class: "bad", Status: 500}, {Class: "bad", Status: 503}}[rng.Intn(3)]
	}
	f := bad()
	p.Targets["t1"] = TargetScript{Probes: []ProbeOutcome{ok, ok}, Then: f} // healthy at 0 and 1000, failing from 2000 on
	p.Targets["t2"] = TargetScript{Then: ok}
	p.Targets["t3"] = TargetScript{Then: ok}
	drain := []int{500, 1000, 2000}[rng.Intn(3)]
	lane := []Cmd{{ID: "c1", Kind: "deploy", Svc: "A", Hosts: []string{"a.test"}, Targets: []string{"t1", "t2"}, DeployTimeoutMs: 2500, DrainTimeoutMs: 1000}}
	c2 := Cmd{ID: "c2", Svc: "A", WaitMs: offGrid(rng, 2300, 2900), DrainTimeoutMs: drain}
	switch {
	case family == "deploy" || rng.Intn(3) == 0:
		c2.Kind, c2.Hosts, c2.Targets, c2.DeployTimeoutMs = "deploy", []string{"a.test"}, []string{"t3"}, 2500
	case rng.Intn(2) == 0:
		c2.Kind, c2.MaxPauseMs = "pause", 2500
	default:
		c2.Kind, c2.Msg = "stop", "later"
	}
	lane = append(lane, c2)
	if c2.Kind != "deploy" {
		lane = append(lane, Cmd{ID: "c3", Kind: "resume", Svc: "A", WaitMs: offGrid(rng, 300, 900)})
	}
	p.Lanes = [][]Cmd{lane}
	// requests accepted while both targets are healthy, some still running when the command comes, some beyond its deadline
	for i := 0; i < 4; i++ {
		r := Req{ID: fmt.Sprintf("r%d", i+1), Svc: "A", Host: "a.test", Path: "/x", After: "c1", WaitMs: offGrid(rng, 100, 900)}
		switch rng.Intn(3) {
		case 0:
			r.Kind, r.HoldMs = "slow", offGrid(rng, 1800, 2600+drain/2)
		case 1:
			r.Kind, r.HoldMs = "slow", 2600+drain+offGrid(rng, 300, 900)
		default:
			r.Kind = "forever"
		}
		p.Clients = append(p.Clients, []Req{r})
	}
	return p
}
