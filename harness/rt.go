package harness

import _ "unsafe"

// rtNow: the real monotonic clock (time.Now is virtual inside a synctest bubble).
//
//go:linkname rtNow runtime.nanotime
func rtNow() int64
