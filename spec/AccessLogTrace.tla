-------------------------- MODULE AccessLogTrace --------------------------
EXTENDS TLC, Json, IOUtils, Integers, Sequences, FiniteSets
Log == ndJsonDeserialize(IOEnv.VERIF_TRACE)

\* (the functions of AccessLog.tla, repeated here because that module also declares the life-cycle variables)
LoggedStatus(class, seenStatus) == CASE class = "abort" -> 499 [] class = "upgrade" -> 101 [] OTHER -> seenStatus
LoggedService(class, svc) == IF class = "notfound" THEN "" ELSE svc
NoTargetClasses == {"notfound", "stopped", "pausedout", "redirect", "tlsrefused"}
CompleteClasses == {"served", "early", "notfound", "stopped", "pausedout", "redirect", "tlsrefused", "fault502", "fault504", "overflow413", "overflow500"}

VARIABLES l, viol, cov
vars == <<l, viol, cov>>
Init == l = 1 /\ viol = {} /\ cov = <<>> /\ TLCSet(1, 0)
If(b, S) == IF b /\ Cardinality(viol) < 100 THEN S ELSE {}
V(inv, subj, detail, e) == [inv |-> inv, subj |-> subj, sig |-> "", detail |-> ToString(detail), scn |-> e.scn, line |-> l]
Bump(S) == [i \in DOMAIN cov \cup S |-> (IF i \in DOMAIN cov THEN cov[i] ELSE 0) + (IF i \in S THEN 1 ELSE 0)]

Step ==
  /\ l <= Len(Log)
  /\ LET e == Log[l] IN
     CASE e.ev = "log_obs" ->
            LET one == e.records = 1
                wantStatus == LoggedStatus(e.class, e.seen_status)
                wantSvc == LoggedService(e.class, e.svc)
                tgtOk == IF e.class \in NoTargetClasses THEN e.log_target = ""
                         ELSE IF e.contacted # "" THEN e.log_target = e.contacted ELSE TRUE
                bytesOk == e.class \in CompleteClasses => e.log_bytes = e.seen_bytes
            IN /\ viol' = viol
                  \cup If(~one, {V("C19_count", e.id, <<"access-log records for the request", e.records, "class", e.class>>, e)})
                  \* (a response cut short may not even have shown its status line to the client)
                  \cup If(one /\ e.log_status # wantStatus /\ ~(e.class = "cut" /\ e.seen_status = 0), {V("C19_status", e.id, <<"logged status", e.log_status, "expected", wantStatus, "class", e.class>>, e)})
                  \cup If(one /\ ~bytesOk, {V("C19_bytes", e.id, <<"logged response bytes", e.log_bytes, "client received", e.seen_bytes, "class", e.class>>, e)})
                  \cup If(one /\ ~(e.log_method = e.method /\ e.log_host = e.host /\ e.log_path = e.path /\ e.log_query = e.query /\ e.log_rid = e.id),
                          {V("C19_req", e.id, <<"logged request line", e.log_method, e.log_host, e.log_path, e.log_query, e.log_rid>>, e)})
                  \cup If(one /\ e.log_service # wantSvc, {V("C19_service", e.id, <<"logged service", e.log_service, "expected", wantSvc>>, e)})
                  \cup If(one /\ ~tgtOk, {V("C19_target", e.id, <<"logged target", e.log_target, "contacted", e.contacted, "class", e.class>>, e)})
                  \cup If(one /\ ~e.hdrs_ok, {V("C19_hdrs", e.id, <<"configured headers not logged with the values sent", e.hdr_diff>>, e)})
               /\ cov' = Bump({"C19_count", "C19_" \o e.class})
       [] e.ev = "harness_error" -> viol' = viol \cup {V("HARNESS", "", e.what, e)} /\ UNCHANGED cov
       [] OTHER -> UNCHANGED <<viol, cov>>
  /\ l' = l + 1
  /\ TLCSet(1, l)
Eof ==
  /\ l = Len(Log) + 1
  /\ JsonSerialize(IOEnv.VERIF_OUT, [lines |-> Len(Log), violations |-> viol, coverage |-> cov])
  /\ TLCSet(1, l)
  /\ l' = l + 1
  /\ UNCHANGED <<viol, cov>>
Next == Step \/ Eof
Spec == Init /\ [][Next]_vars
Accepted == TLCGet(1) = Len(Log) + 1
===========================================================================
