----------------------------- MODULE SnapTrace -----------------------------
(***************************************************************************)
(* Trace specification for Snap.tla: the snapshot steps, configuration     *)
(* observations and state-file observations recorded from one scenario of  *)
(* the real proxy (rewritten line by line by tools/dtrace.py) must be a    *)
(* behaviour of Snap!Spec, with the S_* invariants holding in every state. *)
(* Configurations are compared as the canonical JSON text the recorder     *)
(* produced with the proxy's own marshaller.                               *)
(***************************************************************************)
EXTENDS Snap, Json, IOUtils, TLC

Trace == ndJsonDeserialize(IOEnv.VERIF_TRACE)
Hdr == Trace[1]
TCmds == {Hdr.cmds[i] : i \in 1..Len(Hdr.cmds)}
TCfgs == {}                      \* mutations take their value from the trace

VARIABLE l
tvars == <<vars, l>>
Ev == Trace[l]
IsEvent(a) == l <= Len(Trace) /\ Ev.a = a /\ l' = l + 1

TStart   == IsEvent("Start") /\ Start(Ev.c)
\* the configuration in force as rendered just now: unchanged, or changed by a command that is running
TMem     == IsEvent("Mem") /\ IF Ev.cfg = mem THEN UNCHANGED vars
                              ELSE \E c \in Cmds : Mutate(c, Ev.cfg)
TBegin   == IsEvent("SnapBegin") /\ BeginSave(Ev.c)
TAcquire == IsEvent("Acquire") /\ Acquire(Ev.c)
TList    == IsEvent("List") /\ List(Ev.c)
TCreate  == IsEvent("Create") /\ Create(Ev.c)
TWrite   == IsEvent("Write") /\ Write(Ev.c)
TRename  == IsEvent("Rename") /\ Rename(Ev.c)
TRelease == IsEvent("Release") /\ Release(Ev.c)
TReturn  == IsEvent("Return") /\ Return(Ev.c)
TReturn0 == IsEvent("ReturnWithoutSave") /\ ReturnWithoutSave(Ev.c)
\* what a proxy started now would read from the state file
\* a sample taken by the real-time sampler between the hooks snap_created and snap_written of the writer may already see
\* the rename that the writer's next line will bind
TFile    == IsEvent("File") /\ Ev.ok /\ UNCHANGED vars
              /\ \/ Ev.cfg = file
                 \/ Ev.point = "poll" /\ \E c \in Cmds : phase[c] = "created" /\ Ev.cfg = data[c]

TraceNext == /\ \/ TStart \/ TMem \/ TBegin \/ TAcquire \/ TList \/ TCreate \/ TWrite \/ TRename \/ TRelease \/ TReturn \/ TReturn0 \/ TFile
             /\ TLCSet(1, IF TLCGet(1) < l' THEN l' ELSE TLCGet(1))
TraceInit == Init /\ l = 2 /\ TLCSet(1, 2)
TraceSpec == TraceInit /\ [][TraceNext]_tvars

Accepted ==
  LET reached == TLCGet(1)
      r == [lines |-> Len(Trace), reached |-> reached - 1,
            next |-> IF reached <= Len(Trace) THEN Trace[reached] ELSE [a |-> "-"]]
  IN JsonSerialize(IOEnv.VERIF_OUT, r)
=============================================================================
