----------------------------- MODULE ProxyTrace -----------------------------
(***************************************************************************)
(* Trace specification binding the design model (Proxy.tla, layer D) to    *)
(* the implementation: one scenario recorded from the real proxy (internal *)
(* hook events, rewritten line by line into the vocabulary below by        *)
(* tools/dtrace.py) is accepted iff it is a behaviour of Proxy!Spec.       *)
(*                                                                         *)
(* Each trace action is   IsEvent(name) /\ D-action(args) /\ logged fields *)
(* Emit events (e_..) were recorded inside the lock that protects the       *)
(* change, so they bind the D action exactly; yield events (y_..) were      *)
(* recorded when the goroutine arrived at the hook, i.e. after the step    *)
(* the D action stands for.                                                *)
(*                                                                         *)
(* Grain-of-atomicity decisions:                                           *)
(*  - HcSend (the ticker fires, the probe leaves) is not logged on the     *)
(*    proxy side: it is taken silently and eagerly (it commutes with       *)
(*    everything but the target's own loop).                               *)
(*  - the first line of the file carries the constants of the scenario:    *)
(*    command kinds, target groups, request ids.                           *)
(***************************************************************************)
EXTENDS Proxy, Json, IOUtils, SequencesExt

Trace == ndJsonDeserialize(IOEnv.VERIF_TRACE)
Hdr == Trace[1]

ToSetOf(seq) == {seq[i] : i \in 1..Len(seq)}
TCmds  == Hdr.cmds
TGroup == [k \in 1..Len(Hdr.groups) |-> ToSetOf(Hdr.groups[k])]
TReqs  == ToSetOf(Hdr.reqs)
TKinds == {"plain", "slow", "slowupgrade"}

VARIABLE l            \* index of the next trace line

tvars == <<vars, l>>

Ev == Trace[l]
IsEvent(a) == l <= Len(Trace) /\ Ev.a = a /\ l' = l + 1
Stutter == UNCHANGED vars

StateName(n) == CASE n = 0 -> "adding" [] n = 1 -> "draining" [] n = 2 -> "healthy" [] n = 3 -> "unhealthy"

(* ---- probes ---- *)
CanSend(t) == hcOn[t] /\ hc[t] = "idle"
EagerSend == /\ \E t \in Targets : CanSend(t)
             /\ HcSend(CHOOSE t \in Targets : CanSend(t))
             /\ UNCHANGED l

TProbeResult == IsEvent("ProbeResult") /\ TgProbeReply(Ev.t, Ev.ok)
THcApply     == IsEvent("HcApply") /\ HcApply(Ev.t) /\ ts'[Ev.t] = StateName(Ev.state)
                  /\ (hc[Ev.t] = "ok") = Ev.ok
TRotation    == IsEvent("Rotation") /\ \E t \in Group[Ev.lb] :
                  /\ hc[t] \in {"applied", "applied_first"}
                  /\ HcNotify(t)
                  /\ rot'[Ev.lb] = ToSetOf(Ev.healthy)
THcNotified  == IsEvent("HcNotified") /\
                  IF hc[Ev.t] = "noted" THEN HcNotify(Ev.t)
                  ELSE hc[Ev.t] \in {"idle", "off", "sent"} /\ Stutter
THcClose     == IsEvent("HcClose") /\
                  \* a waiter that gave up closes its own target; once all waiters are back, lb.Dispose closes the rest
                  IF cm.pc = "wait" /\ Ev.t \in Group[cm.k] /\ hcOn[Ev.t] /\ ~became[Ev.t] THEN WaitTargetTimeout(Ev.t)
                  ELSE IF cm.pc = "wait" /\ Ev.t \in Group[cm.k] /\ hcOn[Ev.t] THEN DepWaitTimeout
                  ELSE IF cm.pc = "drained" /\ cm.repl # 0 /\ Ev.t \in Group[cm.repl] /\ hcOn[Ev.t] THEN DepDisposeOld
                  \* remove closes the probe loops and deletes the service in one critical section: the first close is the step
                  ELSE IF cm.pc = "idle" /\ next <= NCmds /\ Cmds[next] = "remove" /\ Ev.t \in LiveTargets /\ hcOn[Ev.t] THEN CmdRemove(next)
                  ELSE ~hcOn[Ev.t] /\ Stutter
TRemove      == IsEvent("Remove") /\ cm.k = Ev.k /\ cm.pc = "ret" /\ res[Ev.k] = "ok" /\ Stutter

(* ---- commands ---- *)
TDepCall    == IsEvent("DepCall") /\ DepCall(Ev.k)
TRdCall     == IsEvent("RdCall") /\ (IF table = 0 THEN CmdNotFound(Ev.k) ELSE RdCall(Ev.k))
\* rollout split set (accepted or refused) / stopped: the emit is made under the service's lock
TRsSet      == IsEvent("RsSet") /\ RsSet(Ev.k) /\ res'[Ev.k] = Ev.res
TRsStop     == IsEvent("RsStop") /\ RsStop(Ev.k)
TDepHealthy == IsEvent("DepHealthy") /\ cm.k = Ev.k /\ DepWaitOk
TUpdateLb   == IsEvent("UpdateLb") /\ cm.k = Ev.k /\ DepUpdateSlot
                 /\ (IF Ev.slot = 0 THEN cm.slot = "active" /\ verLb'[cm.ver] = Ev.lb ELSE cm.slot = "rollout" /\ verRb'[cm.ver] = Ev.lb)
TInstall    == IsEvent("Install") /\ cm.k = Ev.k /\ DepInstall /\ table' = Ev.ver
TDepDrained == IsEvent("DepDrained") /\ cm.k = Ev.k /\ cm.pc = "installed" /\ DrainAllDone
TPc         == IsEvent("Pc") /\
                 CASE Ev.state = "paused"  -> PcPause(Ev.k)
                   [] Ev.state = "stopped" -> PcStop(Ev.k)
                   [] Ev.state = "running" -> PcResume(Ev.k)
TNotFound   == IsEvent("NotFound") /\ CmdNotFound(Ev.k)
\* what is left of the command before it returns and has no event of its own
TPreRet     == IsEvent("PreRet") /\
                 IF cm.pc = "wait" THEN DepWaitTimeout              \* every target's waiter had given up: nothing left to close
                 ELSE IF cm.pc = "drained" THEN DepDisposeOld       \* first deploy: nothing was replaced
                 ELSE IF cm.pc = "pdrain" THEN DrainAllDone          \* end of Service.Drain
                 ELSE cm.pc = "ret" /\ Stutter
TRet        == IsEvent("Ret") /\ cm.k = Ev.k /\ res[Ev.k] = Ev.res /\ CmdReturn

(* ---- drains ---- *)
TDrainStart    == IsEvent("DrainStart") /\ dr[Ev.t] = "start" /\ Stutter
TTargetState   == IsEvent("TargetState") /\
                    IF Ev.state = 1 THEN DrainMark(Ev.t) /\ (ts[Ev.t] = StateName(Ev.was))
                    ELSE DrainRestore(Ev.t) /\ ts'[Ev.t] = StateName(Ev.state)
TDrainSnapshot == IsEvent("DrainSnapshot") /\ DrainSnapshot(Ev.t)
                    \* the map the code copied = the requests D has registered there, plus requests whose
                    \* cancellation D has already accounted for but whose handler has not unwound yet
                    /\ inflight[Ev.t] \subseteq ToSetOf(Ev.rs)
                    /\ \A r \in ToSetOf(Ev.rs) \ inflight[Ev.t] : rq[r].pc = "done"
\* the drain goroutine has stopped waiting (everything finished, or the deadline fired) and is at the hook drain_deadline
TDrainWaited   == IsEvent("DrainWaited") /\ dr[Ev.t] = "waiting" /\ Stutter
\* ... and goes on from it: what is still running is cancelled now
TDrainDeadline == IsEvent("DrainDeadline") /\ (DrainWaitDone(Ev.t) \/ DrainDeadline(Ev.t))

(* ---- requests ---- *)
TSend       == IsEvent("Send") /\ CliSend(Ev.r, Ev.kind)
TRouted     == IsEvent("Routed") /\ ReqRoute(Ev.r) /\ (IF Ev.ver = 0 THEN rq'[Ev.r].pc = "done" ELSE rq'[Ev.r].ver = Ev.ver)
TGate       == IsEvent("Gate") /\ PStateFor(Ev.r) = Ev.state /\ ReqGate(Ev.r)
\* the waiter saw its release channel closed. The close comes before the pause_state emit inside the same critical
\* section and wakes the waiter at once, so this line may precede the command's own line: no guard here, the step
\* itself (ReqReleased) is taken at GatePassed / Recv
TReleased   == IsEvent("Released") /\ rq[Ev.r].pc = "held" /\ Stutter
TGatePassed == IsEvent("GatePassed") /\
                 IF rq[Ev.r].pc = "held" THEN ReqReleased(Ev.r) /\ rq'[Ev.r].pc = "gated"
                 ELSE rq[Ev.r].pc = "gated" /\ Stutter
TPreClaim   == IsEvent("PreClaim") /\ (\E roll \in BOOLEAN : ReqPickLb(Ev.r, roll)) /\ rq'[Ev.r].lb = Ev.lb
TClaim      == IsEvent("Claim") /\ ReqClaim(Ev.r, Ev.t) /\ rq'[Ev.r].pc = "claimed"
TClaimRefused == IsEvent("ClaimRefused") /\ ReqClaim(Ev.r, Ev.t) /\ rq'[Ev.r].pc = "done"
TClaimNone  == IsEvent("ClaimNone") /\ ReqClaimNone(Ev.r)
TBegin      == IsEvent("Begin") /\ TgBegin(Ev.r)
TEndInflight == IsEvent("EndInflight") /\
                 IF Ev.r \in inflight[Ev.t] /\ rq[Ev.r].pc = "atTarget" THEN ReqEnd(Ev.r)
                 ELSE IF Ev.r \in inflight[Ev.t] /\ rq[Ev.r].pc = "upgraded" THEN UpgEnd(Ev.r)
                 ELSE Ev.r \notin inflight[Ev.t] /\ Stutter          \* already cut or closed by a drain
TRecv       == IsEvent("Recv") /\
                 IF rq[Ev.r].pc = "held"
                 THEN \/ Ev.status = 503 /\ ReqReleased(Ev.r) /\ rq'[Ev.r].status = 503
                      \/ Ev.status = 504 /\ ReqPauseTimeout(Ev.r)
                 ELSE /\ rq[Ev.r].pc \in {"done", "upgraded", "atTarget", "claimed"}
                      /\ (rq[Ev.r].pc = "done" /\ rq[Ev.r].status # 0 /\ rq[Ev.r].kind = "plain") => rq[Ev.r].status = Ev.status
                      /\ Stutter

Consume ==
  \/ TProbeResult \/ THcApply \/ TRotation \/ THcNotified \/ THcClose \/ TRemove
  \/ TDepCall \/ TRdCall \/ TRsSet \/ TRsStop \/ TDepHealthy \/ TUpdateLb \/ TInstall \/ TDepDrained \/ TPc \/ TNotFound \/ TPreRet \/ TRet
  \/ TDrainStart \/ TTargetState \/ TDrainSnapshot \/ TDrainWaited \/ TDrainDeadline
  \/ TSend \/ TRouted \/ TGate \/ TReleased \/ TGatePassed \/ TPreClaim \/ TClaim \/ TClaimRefused \/ TClaimNone
  \/ TBegin \/ TEndInflight \/ TRecv

TraceNext == /\ IF \E t \in Targets : CanSend(t) THEN EagerSend ELSE Consume
             /\ TLCSet(1, IF TLCGet(1) < l' THEN l' ELSE TLCGet(1))     \* high-water mark of consumed lines

TraceInit == Init /\ l = 2 /\ TLCSet(1, 2)
TraceSpec == TraceInit /\ [][TraceNext]_tvars

Accepted ==
  LET reached == TLCGet(1)
      r == [lines |-> Len(Trace), reached |-> reached - 1,
            next |-> IF reached <= Len(Trace) THEN Trace[reached] ELSE [a |-> "-"]]
  IN /\ JsonSerialize(IOEnv.VERIF_OUT, r)
     /\ TRUE
=============================================================================
