"""From TLC behaviours of the design model (spec/Proxy.tla) to executor plans.

A behaviour is a list of action labels with their arguments, as TLC prints them in counterexamples
("State 5: <HcApply(t1) line ...>") and in -simulate files ("\\* <HcApply(t1) line ...>").  Nothing of the TLA+
state is parsed.  plan_from_labels turns the labels into: the operator lane, one client lane per request, a probe
script per target (from the TgProbeReply labels) and the list of wanted controller decisions (DESIGN.md appendix B).
"""
import json, os, re, sys

LABEL = re.compile(r"<(\w+)(?:\(([^)]*)\))? line \d+")


def parse_labels(text):
    out = []
    for m in LABEL.finditer(text):
        name = m.group(1)
        if name in ("Init", "Initial"):
            continue
        args = [a.strip().strip('"') for a in m.group(2).split(",")] if m.group(2) else []
        out.append((name, args))
    return out


def plan_from_labels(labels, desc, note="", seed=1):
    """desc: {"cmds": [...kinds...], "group": [[targets of cmd 1], ...], optional "dto","drto","max_pause"}"""
    cmds, group = desc["cmds"], desc["group"]
    dto, drto, mp = desc.get("dto", 3000), desc.get("drto", 1000), desc.get("max_pause", 2000)
    lane, scripts = [], {}
    for k, kind in enumerate(cmds, start=1):
        c = {"id": "c%d" % k, "kind": kind, "svc": "A"}
        kind = {"rdeploy": "rollout_deploy", "rset": "rollout_set", "rstop": "rollout_stop"}.get(kind, kind)
        c["kind"] = kind
        if kind in ("deploy", "rollout_deploy"):
            c.update(targets=group[k - 1], dto=dto, drto=drto)
            if kind == "deploy":
                c.update(hosts=["a.test"])
            for t in group[k - 1]:
                scripts[t] = {"probes": [], "then": {"class": "ok"}}
        elif kind == "rollout_set":
            c.update(pct=100)         # every request that carries the cookie is inside the split
        elif kind == "pause":
            c.update(drto=drto, max_pause=mp)
        elif kind == "stop":
            c.update(drto=drto, msg="closed for maintenance")
        lane.append(c)
    clients, wanted = [], []
    lane_of = {}
    issued = 0
    installed = replaced_something = False

    def key(point, actor):
        return point + "@" + actor

    rolls = {a[0] for name, a in labels if name == "ReqPickLb" and len(a) > 1 and a[1] == "TRUE"}
    for name, a in labels:
        if name in ("DepCall", "RdCall", "RsSet", "RsStop", "CmdRemove", "PcPause", "PcStop", "PcResume", "CmdNotFound"):
            wanted.append(key("op_next", "lane0"))
            issued += 1
        elif name == "TgProbeReply":
            scripts[a[0]]["probes"].append({"class": "ok"} if a[1] == "TRUE" else {"class": "bad", "status": 500})
        elif name == "HcApply":
            wanted.append(key("hc_result", "hc:%s#1" % a[0]))
        elif name == "HcNotify":
            wanted.append(key("hc_applied", "hc:%s#1" % a[0]))
        elif name == "DepUpdateSlot":
            wanted.append(key("dep_healthy", "c:c%d" % issued))
        elif name == "DepInstall":
            wanted.append(key("dep_pre_install", "c:c%d" % issued))
            replaced_something = installed
            installed = True
        elif name in ("DepWaitTimeout", "WaitTargetTimeout"):
            wanted += ["advance"] * (dto // 100 + 2)
        elif name == "DrainMark":
            wanted.append(key("drain_start", "dr:%s#1" % a[0]))
        elif name == "DrainSnapshot":
            wanted.append(key("drain_marked", "dr:%s#1" % a[0]))
        elif name in ("DrainWaitDone", "DrainDeadline"):
            wanted.append(key("drain_deadline", "dr:%s#1" % a[0]))
        elif name == "DepDisposeOld":
            if replaced_something:  # the hook exists only on the path that drained a replaced load balancer
                wanted.append(key("dep_drained", "c:c%d" % issued))
        elif name == "CliSend":
            r, kind = a[0], a[1]
            lane_of[r] = len(clients)
            clients.append([{"id": r, "svc": "A", "host": "a.test", "path": "/x", "kind": kind,
                             "cookie": "guided" if r in rolls else ""}])
            wanted.append(key("cli_next", "cli%d" % lane_of[r]))
        elif name == "ReqRoute":
            wanted.append(key("routed", "r:" + a[0]))
        elif name == "ReqGate":
            wanted.append(key("wait_snapshot", "r:" + a[0]))
        elif name == "ReqReleased":
            wanted.append(key("wait_released", "r:" + a[0]))
        elif name == "ReqPauseTimeout":
            wanted += ["advance"] * (mp // 100 + 2)
        elif name == "ReqPickLb":
            wanted.append(key("gate_passed", "r:" + a[0]))
        elif name in ("ReqClaim", "ReqClaimNone"):
            wanted.append(key("pre_claim", "r:" + a[0]))
        elif name == "TgBegin":
            wanted.append(key("pre_send", "r:" + a[0]))
        elif name == "CmdReturn":
            wanted.append(key("op_done", "lane0"))
        # HcSend, HcStopped, DepWaitOk, DrainRestore, DrainAllDone, ReqEnd, Finished: no decision of their own
    plan = {"family": "guided", "seed": seed, "urgent": False, "sched": "guided", "lanes": [lane[:max(issued, 0)] or lane[:1]],
            "clients": clients, "targets": scripts, "max_steps": 3000, "settle_ms": 9000, "quantum_ms": 100,
            "decisions": wanted, "note": note}
    return plan


def load_desc(cfg_path):
    return json.load(open(os.path.splitext(cfg_path)[0] + ".json"))


if __name__ == "__main__":
    txt = open(sys.argv[1]).read()
    desc = json.load(open(sys.argv[2]))
    print(json.dumps(plan_from_labels(parse_labels(txt), desc), indent=1))
