package harness

import (
	"context"
	"crypto/ecdsa"
	"crypto/elliptic"
	"crypto/rand"
	"crypto/tls"
	"crypto/x509"
	"crypto/x509/pkix"
	"encoding/json"
	"encoding/pem"
	"fmt"
	"html"
	"io"
	"math/big"
	"net/http"
	"os"
	"path/filepath"
	"sort"
	"strings"
	"sync"
	"sync/atomic"
	"testing"
	"testing/synctest"
	"time"

	"github.com/basecamp/kamal-proxy/internal/server"
)

// Sequential families (routing / ownership / TLS policy / restart): command
// histories produced by TLC from spec/MC_Routing.tla are replayed into a real
// router; after every step the whole request matrix is sent through the full
// handler chain and every (host, path, scheme) -> outcome line is recorded for
// spec/RoutingTrace.tla.

type RStep struct {
	Op       string   `json:"op"`              // deploy | remove | restart | rollout_deploy | rollout_set | rollout_stop | pause | stop | resume
	Fault    string   `json:"fault,omitempty"` // none | invalid_target | unhealthy | cert | error_pages
	Arg      int      `json:"arg,omitempty"`   // rollout_set: 1 = allowlist only, 2 = 100 %
	Msg      string   `json:"msg,omitempty"`   // stop message
	TOpt     int      `json:"topt,omitempty"`  // target-option variant of a deploy
	Svc      string   `json:"svc,omitempty"`
	Hosts    []string `json:"hosts,omitempty"`
	Paths    []string `json:"paths,omitempty"`
	TLS      bool     `json:"tls,omitempty"`
	Redirect bool     `json:"redirect,omitempty"`
	ACME     bool     `json:"acme,omitempty"`
	Strip    bool     `json:"strip,omitempty"`
}

type RoutingPlan struct {
	Steps    []RStep  `json:"steps"`
	ReqHosts []string `json:"req_hosts"`
	ReqPaths []string `json:"req_paths"`
	SNI      []string `json:"sni"`
	Note     string   `json:"note,omitempty"`
}

// hostLabels / pathSegs: the harness's lexer (trusted; well-formed inputs only).
func hostLabels(h string) []string {
	if h == "" {
		return []string{}
	}
	if strings.HasPrefix(h, "[") {
		if i := strings.Index(h, "]"); i > 0 {
			return []string{h[1:i]}
		}
	}
	if i := strings.LastIndex(h, ":"); i > 0 && !strings.Contains(h[i+1:], ".") && strings.Count(h, ":") == 1 {
		h = h[:i]
	}
	return strings.Split(h, ".")
}

func hostNoPort(h string) string {
	if i := strings.LastIndex(h, ":"); i > 0 && strings.Count(h, ":") == 1 {
		return h[:i]
	}
	return h
}

func pathSegs(p string) []string {
	p = strings.TrimPrefix(p, "/")
	if p == "" {
		return []string{}
	}
	return strings.Split(p, "/")
}

func labelsList(hs []string) [][]string {
	out := [][]string{}
	if len(hs) == 0 {
		return [][]string{{}} // no host = the default binding
	}
	for _, h := range hs {
		out = append(out, hostLabels(h))
	}
	return out
}

func segsList(ps []string) [][]string {
	out := [][]string{}
	if len(ps) == 0 {
		return [][]string{{}} // no prefix = the root path
	}
	for _, p := range ps {
		out = append(out, pathSegs(p))
	}
	return out
}

// writeTestCert creates a self-signed certificate usable as a "static" certificate.
func writeTestCert(dir string) (certPath, keyPath string, err error) {
	key, err := ecdsa.GenerateKey(elliptic.P256(), rand.Reader)
	if err != nil {
		return "", "", err
	}
	tmpl := &x509.Certificate{SerialNumber: big.NewInt(1), Subject: pkix.Name{CommonName: "verif"},
		NotBefore: time.Date(2000, 1, 1, 0, 0, 0, 0, time.UTC), NotAfter: time.Date(2090, 1, 1, 0, 0, 0, 0, time.UTC), DNSNames: []string{"*.d", "a.d", "b.a.d", "d"}}
	der, err := x509.CreateCertificate(rand.Reader, tmpl, tmpl, &key.PublicKey, key)
	if err != nil {
		return "", "", err
	}
	kb, err := x509.MarshalECPrivateKey(key)
	if err != nil {
		return "", "", err
	}
	certPath, keyPath = filepath.Join(dir, "cert.pem"), filepath.Join(dir, "key.pem")
	os.WriteFile(certPath, pem.EncodeToMemory(&pem.Block{Type: "CERTIFICATE", Bytes: der}), 0o600)
	os.WriteFile(keyPath, pem.EncodeToMemory(&pem.Block{Type: "EC PRIVATE KEY", Bytes: kb}), 0o600)
	return certPath, keyPath, nil
}

func RunRoutingPlan(t *testing.T, scn int, rp *RoutingPlan, rec *Recorder, dir, cert, key string) {
	synctest.Test(t, func(t *testing.T) {
		plan := &Plan{Family: "routing", Sched: "free", Targets: map[string]TargetScript{}}
		// one fake target per deploy step
		n := 0
		for _, st := range rp.Steps {
			if st.Op == "deploy" || st.Op == "rollout_deploy" {
				n++
				// probes take a moment, so that "not probed yet" is an observable condition (after a restart)
				script := TargetScript{Then: ProbeOutcome{Class: "ok", DelayMs: 230}}
				if st.Fault == "unhealthy" {
					script = TargetScript{Then: ProbeOutcome{Class: "bad", Status: 500}}
					// a second target of the same deploy that does become healthy
					plan.Targets[fmt.Sprintf("%sg%dh", st.Svc, n)] = TargetScript{Then: ProbeOutcome{Class: "ok", DelayMs: 230}}
				}
				plan.Targets[fmt.Sprintf("%sg%d", st.Svc, n)] = script
			}
		}
		w := &World{t: t, plan: plan, rec: rec, dir: dir}
		w.setup(scn)
		w.rec.Emit("reset", KV{"family": "routing", "urgent": true, "seed": 0, "note": rp.Note})
		n = 0
		noOpt := func(fault string, arg any) KV {
			return KV{"hostsL": [][]string{}, "pathsL": [][]string{}, "tls": false, "redirect": false, "acme": false, "fault": fault, "arg": arg}
		}
		for i, st := range rp.Steps {
			id := fmt.Sprintf("c%d", i+1)
			fault := st.Fault
			if fault == "" {
				fault = "none"
			}
			w.cfgObs()
			switch st.Op {
			case "deploy", "rollout_deploy":
				n++
				c := Cmd{ID: id, Kind: st.Op, Svc: st.Svc, Targets: []string{fmt.Sprintf("%sg%d", st.Svc, n)}, Hosts: st.Hosts, Paths: st.Paths,
					TLS: st.TLS, TLSRedirect: st.Redirect, StripPrefix: st.Strip, DeployTimeoutMs: 1500, DrainTimeoutMs: 500}
				if st.TLS && !st.ACME {
					c.CertPath, c.KeyPath = cert, key
				}
				switch st.TOpt {
				case 1:
					c.RespTimeoutMs, c.HCIntervalMs = 4000, 2000
				case 2:
					c.BufReq, c.BufResp, c.MaxMem, c.ForwardHdrs = true, true, 4096, true
				}
				unwritable := false
				switch fault {
				case "unhealthy":
					c.Targets = []string{c.Targets[0] + "h", c.Targets[0]}
				case "state_unwritable":
					// the state file cannot be written while this command runs; the command must still succeed
					os.Remove(w.statePath)
					os.Mkdir(w.statePath, 0o755)
					unwritable = true
					fault = "none"
				}
				switch fault {
				case "invalid_target":
					c.Targets = []string{c.Targets[0], "not a valid target!"}
				case "cert":
					c.CertPath = filepath.Join(dir, "missing-cert.pem")
				case "error_pages":
					c.ErrorPages = filepath.Join(dir, "missing-error-pages")
				}
				if st.Op == "deploy" {
					w.execCmdX(c, KV{"hostsL": labelsList(st.Hosts), "pathsL": segsList(st.Paths), "tls": st.TLS, "redirect": st.Redirect, "acme": st.ACME, "fault": fault, "arg": 0})
				} else {
					w.execCmdX(c, noOpt(fault, 0))
				}
				if unwritable {
					os.Remove(w.statePath)
					server.VerifSaveState(w.router)
				}
			case "rollout_set":
				w.execCmdX(Cmd{ID: id, Kind: "rollout_set", Svc: st.Svc, Pct: []int{0, 0, 100}[st.Arg], Allow: []string{"vip"}}, noOpt("none", st.Arg))
			case "remove":
				// TLS handshakes for every name keep arriving while the service is removed (two goroutines asking for
				// certificates on the real clock; remove waits for no timer, so virtual time need not move meanwhile):
				// whatever they saw, afterwards a certificate is served only for names that are still bound
				var stop atomic.Bool
				var hwg sync.WaitGroup
				for g := 0; g < 2 && len(rp.SNI) > 0; g++ {
					hwg.Add(1)
					go func() {
						defer hwg.Done()
						for i := 0; !stop.Load(); i++ {
							func() {
								defer func() { recover() }()
								w.router.GetCertificate(&tls.ClientHelloInfo{ServerName: rp.SNI[i%len(rp.SNI)]})
							}()
						}
					}()
				}
				w.execCmdX(Cmd{ID: id, Kind: st.Op, Svc: st.Svc}, noOpt("none", 0))
				stop.Store(true)
				hwg.Wait()
			case "rollout_stop", "resume":
				w.execCmdX(Cmd{ID: id, Kind: st.Op, Svc: st.Svc}, noOpt("none", 0))
			case "pause":
				w.execCmdX(Cmd{ID: id, Kind: "pause", Svc: st.Svc, DrainTimeoutMs: 500, MaxPauseMs: 2000}, noOpt("none", 0))
			case "stop":
				w.execCmdX(Cmd{ID: id, Kind: "stop", Svc: st.Svc, DrainTimeoutMs: 500, Msg: st.Msg}, noOpt("none", st.Msg))
			case "restart":
				w.restart(id)
			}
			synctest.Wait()
			w.cfgObs()
			w.probeMatrix(rp)
		}
		time.Sleep(3 * time.Second)
		synctest.Wait()
		w.rec.Emit("end", nil)
		w.teardown()
	})
}

// execCmdX: like execCmd, with extra fields on the cmd_call record.
func (w *World) execCmdX(cmd Cmd, extra KV) {
	w.extra = extra
	w.execCmd(cmd)
	w.extra = nil
}

// restart: a fresh router restored from the state file takes over; the old one's probe loops are stopped.
func (w *World) restart(id string) {
	w.rec.Emit("cmd_call", KV{"c": id, "kind": "restart", "svc": "", "targets": []string{}, "dto": 0, "drto": 0, "max_pause": 0, "msg": "",
		"hosts": []string{}, "paths": []string{}, "pct": 0, "allow": []string{}, "hc_interval": 1000, "hc_timeout": 500,
		"hostsL": [][]string{}, "pathsL": [][]string{}, "tls": false, "redirect": false, "acme": false, "fault": "none", "arg": 0})
	w.mu.Lock()
	var old []*server.HealthCheck
	for hc, open := range w.hcs {
		if open {
			old = append(old, hc)
		}
	}
	w.mu.Unlock()
	r2 := server.NewRouter(w.statePath)
	res := "ok"
	func() {
		defer func() {
			if p := recover(); p != nil {
				res = fmt.Sprintf("panic:%v", p)
			}
		}()
		if err := r2.RestoreLastSavedState(); err != nil {
			res = "error:" + err.Error()
		}
	}()
	for _, hc := range old {
		hc.Close()
	}
	cfg := &server.Config{Bind: "127.0.0.1", HttpPort: 80, HttpsPort: 443, AlternateConfigDir: w.dir}
	w.router = r2
	w.setHandler(server.VerifBuildHandler(server.NewServer(cfg, r2)))
	w.rec.Emit("cmd_ret", KV{"c": id, "res": res})
}

// cfgObs records the operator-visible configuration as one canonical string: `list`, every service's in-memory
// options / targets / pause and rollout state, and the parsed state file.
func (w *World) cfgObs() {
	list := w.router.ListActiveServices()
	names := make([]string, 0, len(list))
	for n := range list {
		names = append(names, n)
	}
	sort.Strings(names)
	sums := []server.VerifServiceSummary{}
	for _, n := range names {
		if s := server.VerifRouterService(w.router, n); s != nil {
			sums = append(sums, server.VerifSummarize(s))
		}
	}
	var state any = []any{} // no state file yet = nothing deployed
	if b, err := os.ReadFile(w.statePath); err == nil {
		if json.Unmarshal(b, &state) != nil {
			state = "undecodable:" + string(b)
		} else if arr, ok := state.([]any); ok {
			sort.Slice(arr, func(i, j int) bool {
				return fmt.Sprint(arr[i].(map[string]any)["name"]) < fmt.Sprint(arr[j].(map[string]any)["name"])
			})
		}
	}
	b, _ := json.Marshal(map[string]any{"list": list, "services": sums, "state": state})
	w.rec.Emit("cfg_obs", KV{"cfg": string(b)})
}

func (w *World) probeMatrix(rp *RoutingPlan) {
	for _, https := range []bool{false, true} {
		for _, h := range rp.ReqHosts {
			for _, p := range rp.ReqPaths {
				w.probeOne(h, p, https, "")
			}
		}
	}
	for _, h := range []string{"a.d", "b.a.d", "c.d"} {
		for _, p := range []string{"/", "/api"} {
			for _, ck := range []string{"vip", "zzz"} {
				w.probeOne(h, p, false, ck)
			}
		}
	}
	for _, sni := range rp.SNI {
		ok := false
		func() {
			defer func() { recover() }()
			c, err := w.router.GetCertificate(&tls.ClientHelloInfo{ServerName: sni})
			ok = err == nil && c != nil
		}()
		w.rec.Emit("cert", KV{"h": hostLabels(sni), "ok": ok, "sni": sni})
	}
}

func (w *World) probeOne(host, path string, https bool, cookie string) {
	addr := proxyHTTP
	if https {
		addr = proxyHTTPS
	}
	// a held (paused) request is given up after a moment of virtual time
	ctx, cancel := context.WithTimeout(context.Background(), 50*time.Millisecond)
	defer cancel()
	req, err := http.NewRequestWithContext(ctx, "GET", "http://"+addr+path+"?q=1;b", nil)
	if err != nil {
		w.rec.Emit("harness_error", KV{"what": err.Error()})
		return
	}
	req.Host = host
	req.Header.Set("X-Verif-Rid", "probe")
	req.Header.Set("X-Verif-Kind", "plain")
	if cookie != "" {
		req.Header.Set("Cookie", "other=1; kamal-rollout="+cookie)
	}
	resp, err := w.clientTr.RoundTrip(req)
	if err != nil {
		w.rec.Emit("probe", KV{"h": hostLabels(host), "p": pathSegs(path), "https": https, "status": 0, "origin": "none", "loc_ok": false,
			"host": host, "path": path, "seen": "", "cookie": cookie, "msg": "", "markup": false})
		return
	}
	body, _ := io.ReadAll(resp.Body)
	resp.Body.Close()
	msg, markup := "", false
	if m := msgRe.FindSubmatch(body); m != nil {
		txt := strings.TrimSpace(string(m[1]))
		if !strings.HasPrefix(txt, "<strong>") {
			msg = html.UnescapeString(txt)
			markup = strings.ContainsAny(txt, "<>")
		}
	}
	origin := resp.Header.Get("X-Verif-Origin")
	if origin == "" {
		origin = "proxy"
	}
	loc := resp.Header.Get("Location")
	locOK := true
	if resp.StatusCode == 301 && !strings.HasPrefix(host, "[") {
		locOK = loc == "https://"+hostNoPort(host)+path+"?q=1;b"
	}
	w.rec.Emit("probe", KV{"h": hostLabels(host), "p": pathSegs(path), "https": https, "status": resp.StatusCode, "origin": origin,
		"loc_ok": locOK, "host": host, "path": path, "seen": resp.Header.Get("X-Verif-Path"), "cookie": cookie, "msg": msg, "markup": markup})
}
