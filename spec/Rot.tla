-------------------------------- MODULE Rot --------------------------------
(***************************************************************************)
(* The rotation of ONE load balancer under concurrent probe loops (C09).   *)
(*                                                                         *)
(* Proxy.tla treats "rebuild the rotation" (LoadBalancer.                  *)
(* updateHealthyTargets) as one step, which is what the code does: the     *)
(* states of all targets are read and the list is assigned while lb.lock   *)
(* is held.  This small model opens that step up: every probe loop is a    *)
(* process                                                                 *)
(*                                                                         *)
(*   idle -(probe result)-> got -(HealthCheckCompleted, target lock)->     *)
(*   applied -(TargetStateChanged: lb.lock; read every target's state one  *)
(*   after the other; assign lb.healthy; unlock)-> idle                    *)
(*                                                                         *)
(* and the reads of the target states are separate steps (each takes only  *)
(* the target's own lock - code: Target.State(), hook state_read).         *)
(* BuildUnderLock = TRUE is the code; FALSE is the design twin of seeded   *)
(* change C09-2 (reads first, lock only around the assignment) and must    *)
(* violate R_Settled.  NotifyAlways = FALSE is the code (rebuild only on a *)
(* state CHANGE); the invariants hold either way.                          *)
(* Requests claim the next target of the rotation under lb.lock.           *)
(***************************************************************************)
EXTENDS Naturals, FiniteSets, Sequences

CONSTANTS
  Targets,         \* targets of the load balancer, in lb.all order given by Order
  Order,           \* Order[i] = i-th target of lb.all (a sequence without repetition over Targets)
  MaxProbes,       \* probe results per target (bound)
  MaxClaims,       \* claims by requests (bound)
  BuildUnderLock,  \* TRUE: reads happen while lb.lock is held (code).  FALSE: reads before the lock (C09-2)
  NotifyAlways,    \* FALSE: rebuild only when the state changed (code)
  CoalesceRebuilds \* FALSE: every notification rebuilds (code).  TRUE: one that finds a rebuild under way is dropped (seeded C09-6)

VARIABLES
  ts,      \* ts[t] \in {"healthy","unhealthy"}                       Target.state (after deployment)
  rot,     \* set of targets in rotation                              LoadBalancer.healthy
  lock,    \* holder of lb.lock: a target (its probe loop), or "none"  LoadBalancer.lock
  pc,      \* pc[t] \in {"idle","got","applied","build","install"}     probe loop of t
  res,     \* res[t] = outcome of the probe being reported (BOOLEAN)
  pos,     \* pos[t] = number of targets already read by t's rebuild
  acc,     \* acc[t] = healthy targets collected so far by t's rebuild
  nprobe,  \* probes reported per target
  latest,  \* latest[t] = outcome of t's latest APPLIED probe
  claims   \* sequence of [tgt, tsAt, pcAt] records, one per claim

vars == <<ts, rot, lock, pc, res, pos, acc, nprobe, latest, claims>>

N == Len(Order)

Init ==
  /\ ts = [t \in Targets |-> "healthy"]            \* deployed: every target has been healthy once
  /\ rot = Targets
  /\ lock = "none"
  /\ pc = [t \in Targets |-> "idle"]
  /\ res = [t \in Targets |-> TRUE]
  /\ pos = [t \in Targets |-> 0]
  /\ acc = [t \in Targets |-> {}]
  /\ nprobe = [t \in Targets |-> 0]
  /\ latest = [t \in Targets |-> TRUE]
  /\ claims = <<>>

ProbeResult(t, good) ==                            \* environment + health_check.go: the loop reports a result
  /\ pc[t] = "idle" /\ nprobe[t] < MaxProbes
  /\ pc' = [pc EXCEPT ![t] = "got"]
  /\ res' = [res EXCEPT ![t] = good]
  /\ nprobe' = [nprobe EXCEPT ![t] = @ + 1]
  /\ UNCHANGED <<ts, rot, lock, pos, acc, latest, claims>>

Apply(t) ==                                        \* HealthCheckCompleted: locked section (target's own lock)
  /\ pc[t] = "got"
  /\ LET ns == IF res[t] THEN "healthy" ELSE "unhealthy"
     IN /\ ts' = [ts EXCEPT ![t] = ns]
        /\ pc' = [pc EXCEPT ![t] = IF ns # ts[t] \/ NotifyAlways THEN "applied" ELSE "idle"]
  /\ latest' = [latest EXCEPT ![t] = res[t]]
  /\ UNCHANGED <<rot, lock, res, pos, acc, nprobe, claims>>

BeginBuild(t) ==                                   \* updateHealthyTargets entered
  /\ pc[t] = "applied"
  /\ IF BuildUnderLock THEN lock = "none" /\ lock' = t ELSE UNCHANGED lock
  /\ pc' = [pc EXCEPT ![t] = "build"]
  /\ pos' = [pos EXCEPT ![t] = 0]
  /\ acc' = [acc EXCEPT ![t] = {}]
  /\ UNCHANGED <<ts, rot, res, nprobe, latest, claims>>

SkipBuild(t) ==                                    \* variant only: TargetStateChanged returns because a rebuild is under way
  /\ CoalesceRebuilds
  /\ pc[t] = "applied" /\ lock # "none"
  /\ pc' = [pc EXCEPT ![t] = "idle"]
  /\ UNCHANGED <<ts, rot, lock, res, pos, acc, nprobe, latest, claims>>

ReadState(t) ==                                    \* hook state_read; Target.State() of the next target of lb.all
  /\ pc[t] = "build" /\ pos[t] < N
  /\ LET u == Order[pos[t] + 1]
     IN acc' = [acc EXCEPT ![t] = IF ts[u] = "healthy" THEN @ \cup {u} ELSE @]
  /\ pos' = [pos EXCEPT ![t] = @ + 1]
  /\ UNCHANGED <<ts, rot, lock, pc, res, nprobe, latest, claims>>

ReadsDone(t) ==                                    \* all read; the unlocked variant takes the lock now
  /\ pc[t] = "build" /\ pos[t] = N
  /\ IF BuildUnderLock THEN UNCHANGED lock ELSE lock = "none" /\ lock' = t
  /\ pc' = [pc EXCEPT ![t] = "install"]
  /\ UNCHANGED <<ts, rot, res, pos, acc, nprobe, latest, claims>>

Install(t) ==                                      \* hook rotation; lb.healthy assigned, lock released
  /\ pc[t] = "install" /\ lock = t
  /\ rot' = acc[t]
  /\ lock' = "none"
  /\ pc' = [pc EXCEPT ![t] = "idle"]
  /\ UNCHANGED <<ts, res, pos, acc, nprobe, latest, claims>>

Claim(u) ==                                        \* claimTarget: under lb.lock, a target of the rotation
  /\ Len(claims) < MaxClaims
  /\ lock = "none"                                 \* (lock taken and released within the step)
  /\ u \in rot
  /\ claims' = Append(claims, [tgt |-> u, tsAt |-> ts[u], pcAt |-> pc[u]])
  /\ UNCHANGED <<ts, rot, lock, pc, res, pos, acc, nprobe, latest>>

ClaimNone ==                                       \* claimTarget: rotation empty -> 503
  /\ Len(claims) < MaxClaims
  /\ lock = "none" /\ rot = {}
  /\ claims' = Append(claims, [tgt |-> "none", tsAt |-> "none", pcAt |-> IF \E t \in Targets : ts[t] = "healthy" /\ pc[t] = "idle" THEN "had" ELSE "hadnot"])
  /\ UNCHANGED <<ts, rot, lock, pc, res, pos, acc, nprobe, latest>>

Next ==
  \/ \E t \in Targets : \/ \E good \in BOOLEAN : ProbeResult(t, good)
                        \/ Apply(t) \/ BeginBuild(t) \/ SkipBuild(t) \/ ReadState(t) \/ ReadsDone(t) \/ Install(t)
                        \/ Claim(t)
  \/ ClaimNone

Spec == Init /\ [][Next]_vars

Fairness == \A t \in Targets : WF_vars(Apply(t)) /\ WF_vars(BeginBuild(t)) /\ WF_vars(ReadState(t)) /\ WF_vars(ReadsDone(t)) /\ WF_vars(Install(t))
FairSpec == Spec /\ Fairness

---------------------------------------------------------------------------
TypeOK ==
  /\ ts \in [Targets -> {"healthy", "unhealthy"}]
  /\ rot \subseteq Targets
  /\ lock \in Targets \cup {"none"}
  /\ pc \in [Targets -> {"idle", "got", "applied", "build", "install"}]
  /\ pos \in [Targets -> 0..N]
  /\ acc \in [Targets -> SUBSET Targets]

Busy(t) == pc[t] \in {"applied", "build", "install"}      \* between the locked state change and the end of its rebuild

\* R_Settled: whenever no loop is between its state change and the end of its rebuild, the rotation is exactly the
\* set of healthy targets.  This is what makes C09 true at every moment a client can tell apart ("strictly after the
\* probe"): steady failing targets produce no further change, so a stale rotation would never be corrected.
R_Settled == (\A t \in Targets : ~Busy(t)) => rot = {t \in Targets : ts[t] = "healthy"}

\* R_Claim: a claimed target was healthy, or its own loop was between its state change and the end of the rebuild
\* that change triggered (the window C09_b allows: "strictly later"), or another loop was - no: only its own.
R_Claim == \A i \in 1..Len(claims) :
             claims[i].tgt # "none" => (claims[i].tsAt = "healthy" \/ claims[i].pcAt \in {"applied", "build", "install"})

\* R_NoneJustified: a request is refused for lack of targets only when no target is healthy with its loop at rest
R_NoneJustified == \A i \in 1..Len(claims) : claims[i].tgt = "none" => claims[i].pcAt = "hadnot"

\* R_Mutex: at most one rebuild holds the lock, and an installing loop holds it
R_Mutex == \A t \in Targets : pc[t] = "install" => lock = t

\* with the code's locking, a rebuild in progress has read a prefix of lb.all and nothing it read has changed under it
\* EXCEPT by loops that are now waiting for the lock (they will rebuild afterwards)
R_ReadsFresh == BuildUnderLock =>
                  \A t \in Targets : pc[t] \in {"build", "install"} =>
                     \A i \in 1..pos[t] : LET u == Order[i] IN
                        ((u \in acc[t]) = (ts[u] = "healthy")) \/ pc[u] = "applied"

\* liveness: every state change is eventually reflected (under fairness of the loops)
L_Settles == []<>(\A t \in Targets : ~Busy(t))
=============================================================================
