#!/usr/bin/env python3
"""show.py <trace.ndjson> <scn> [substring ...]: print one scenario's events compactly"""
import json, sys
f, scn = sys.argv[1], int(sys.argv[2]); subs = sys.argv[3:]
for line in open(f):
    if '"scn":%d,' % scn not in line and '"scn":%d}' % scn not in line: continue
    e = json.loads(line)
    if subs and not any(s in line for s in subs): continue
    ev = e.pop('ev'); seq = e.pop('seq'); t = e.pop('t'); e.pop('scn', None)
    for k in ('allow','hosts','paths','pct','hc_interval','hc_timeout','method','tls','abort','cookie','loc','page','path','host'):
        if k in e and e[k] in ([], '', 0, False, 'GET', 1000, 500, '/x', 'a.test', ['a.test']): e.pop(k)
    print('%5d %6d %-16s %s' % (seq, t, ev, ' '.join('%s=%s' % (k, json.dumps(v)) for k, v in e.items())))
