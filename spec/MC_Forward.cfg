SPECIFICATION Spec
CONSTANTS
  Atoms = {"app", "v1", "x", "a%2Fb", "%61pp", "", ".."}
  MaxLen = 4
INVARIANTS
  Inv_Suffix
  Inv_NoStrip
  Inv_OnlyLeading
CHECK_DEADLOCK FALSE
