----------------------------- MODULE ObsTrace -----------------------------
(***************************************************************************)
(* Trace validation against the observable layer.  The ndjson file named   *)
(* by the environment variable VERIF_TRACE holds the events recorded from  *)
(* the real proxy, many scenarios one after the other (each starts with a  *)
(* "reset" event).  Every line is consumed by exactly one step; every P    *)
(* check of Obs.tla is evaluated at every step; violated instances are     *)
(* collected (rather than stopping at the first) and written to VERIF_OUT  *)
(* so that each can be compared with the known findings.  The trace is     *)
(* accepted only if every line was consumed.                               *)
(***************************************************************************)
EXTENDS Obs, Json, IOUtils

Log == ndJsonDeserialize(IOEnv.VERIF_TRACE)

VARIABLES l, h, viol, scn, cov
vars == <<l, h, viol, scn, cov>>

Init == /\ l = 1 /\ h = H0 /\ viol = {} /\ scn = -1 /\ cov = <<>>
        /\ TLCSet(1, 0)

Tag(S, e) == {[inv |-> v.inv, subj |-> v.subj, sig |-> v.sig, detail |-> v.detail, scn |-> e.scn, line |-> l] : v \in S}

Fresh(S) == {v \in S : ~\E w \in viol : w.inv = v.inv /\ w.subj = v.subj /\ w.scn = v.scn}

Step ==
  /\ l <= Len(Log)
  /\ LET e == Log[l]
         skip == h.done /\ e.ev # "reset"
         g == IF skip THEN h ELSE Upd(h, e)
         nv == IF skip THEN {} ELSE Tag(Chk(h, g, e), e)
     IN /\ h' = g
        /\ viol' = viol \cup Fresh(nv)
        /\ scn' = e.scn
        /\ LET ex == IF skip THEN {} ELSE Exercised(h, g, e)
           IN cov' = [i \in DOMAIN cov \cup ex |->
                        (IF i \in DOMAIN cov THEN cov[i] ELSE {}) \cup (IF i \in ex THEN {e.scn} ELSE {})]
  /\ l' = l + 1
  /\ TLCSet(1, l)

Eof ==
  /\ l = Len(Log) + 1
  /\ JsonSerialize(IOEnv.VERIF_OUT, [lines |-> Len(Log), violations |-> viol,
                                       coverage |-> [i \in DOMAIN cov |-> Cardinality(cov[i])]])
  /\ TLCSet(1, l)
  /\ l' = l + 1
  /\ UNCHANGED <<h, viol, scn, cov>>

Next == Step \/ Eof

Spec == Init /\ [][Next]_vars

Accepted == TLCGet(1) = Len(Log) + 1
=============================================================================
