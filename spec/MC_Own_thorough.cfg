SPECIFICATION Spec
CONSTANTS
  Cmds <- C5
  Kind <- Kind5
  Name <- Name5
  Bind <- Bind5
  MayFail = TRUE
  AtomicInstall = TRUE
  CheckOnRollout = TRUE
  DisposeOnConflict = TRUE
INVARIANTS
  O_Ownership
  O_FailedLeavesNothing
  O_NoLeak
PROPERTIES
  A_RefusalJustified
  A_FailChangesNothing
CHECK_DEADLOCK TRUE
