------------------------------- MODULE Obs -------------------------------
(***************************************************************************)
(* Observable layer (P).                                                   *)
(*                                                                         *)
(* The history of one scenario as seen at the boundary of the proxy:       *)
(* operator commands (call / return), client requests (sent / answered),   *)
(* what the targets saw (request begin / end, probe / probe reply), each   *)
(* with a global sequence number and the virtual time.  Upd(h, e) extends  *)
(* the indexed history h by one event e; Chk(h, g, e) (with g = Upd(h,e))  *)
(* is the set of property instances that e violates.  Nothing here         *)
(* mentions locks, structs or call order inside the proxy, except the      *)
(* fields stale / gateclaim of a request, which are used only to tell      *)
(* whether a violation is one of the known findings (Sig).                 *)
(***************************************************************************)
EXTENDS Integers, Sequences, FiniteSets, TLC

NoCmd == "none"
NoTg  == "none"

Put(f, k, v) == (k :> v) @@ f
Has(f, k)    == k \in DOMAIN f
SetOf(s)     == {s[i] : i \in 1..Len(s)}
Max(a, b)    == IF a >= b THEN a ELSE b
Min(a, b)    == IF a <= b THEN a ELSE b
MaxOf(S, d)  == IF S = {} THEN d ELSE CHOOSE x \in S : \A y \in S : y <= x
MinOf(S, d)  == IF S = {} THEN d ELSE CHOOSE x \in S : \A y \in S : x <= y

DeployKinds == {"deploy", "rollout_deploy"}
DrainKinds  == {"pause", "stop"}
PauseKinds  == {"pause", "stop", "resume"}
Instant     == {"resume", "remove", "rollout_set", "rollout_stop", "list"}
Infinity    == 1000000000
RespTimeout == 5000

H0 == [ urgent |-> FALSE, family |-> "", done |-> FALSE,
        cmd |-> <<>>, tg |-> <<>>, rq |-> <<>>, svc |-> <<>>,
        inst |-> <<>>, oldlb |-> {}, rlb |-> <<>>, pauseSeq |-> 0, relSeq |-> 0, drn |-> {},
        mem |-> <<>>,        \* C12: configurations observed in memory, in order: <<seq, cfg>>
        running |-> {},      \* commands called and not yet returned
        since |-> 0 ]        \* seq of the oldest memory observation a snapshot written now may still legitimately show

\* mess:  commands that change the target groups (deploy kinds, remove) overlapped on this service
\* messP: pause-type commands overlapped each other (or a remove): the pause state is no longer definite
NewSvc == [ cur |-> NoCmd, curR |-> NoCmd, pstate |-> "running", pdef |-> TRUE, pcmd |-> NoCmd,
            pending |-> {}, mess |-> FALSE, messP |-> FALSE, split |-> FALSE, binds |-> {}, live |-> FALSE,
            epoch |-> <<>> ]      \* targets claimed (in order) since the healthy set of the active group last changed

NewTg(c) == [ grp |-> c, okSeq |-> 0, okT |-> 0, repSeq |-> 0, repT |-> 0, repCls |-> "",
              probeT |-> -1, probeN |-> 0, inProbe |-> FALSE, nbeg |-> 0, retSeq |-> 0, retT |-> 0,
              retBy |-> NoCmd, retWhy |-> "", open |-> {}, flaky |-> FALSE ]

TargetsOf(h, c) == IF c = NoCmd THEN {} ELSE h.cmd[c].targets
SvcOf(h, s)     == IF Has(h.svc, s) THEN h.svc[s] ELSE NewSvc

V(inv, subj, sig, detail) == [inv |-> inv, subj |-> subj, sig |-> sig, detail |-> ToString(detail)]

(***************************************************************************)
(* Update                                                                  *)
(***************************************************************************)
UpdReset(e) == [H0 EXCEPT !.urgent = e.urgent, !.family = e.family]

UpdCmdCall(h, e) ==
  LET s    == e.svc
      sv   == SvcOf(h, s)
      ovl  == sv.pending # {}
      tgs  == IF e.kind \in DeployKinds THEN SetOf(e.targets) ELSE {}
      dr   == IF e.kind \in DrainKinds THEN TargetsOf(h, sv.cur) \cup TargetsOf(h, sv.curR) ELSE {}
      c    == [ kind |-> e.kind, svc |-> s, targets |-> tgs, call |-> e.seq, callT |-> e.t,
                ret |-> 0, retT |-> 0, res |-> "", dto |-> e.dto, drto |-> e.drto,
                maxPause |-> e.max_pause, msg |-> e.msg, prev |-> dr, s |-> e.t, ovl |-> ovl,
                hcI |-> e.hc_interval, hcT |-> e.hc_timeout, pre |-> sv,
                pages503 |-> ("pages503" \in DOMAIN e) /\ e.pages503,
                binds |-> IF e.kind = "deploy"
                          THEN {<<x, y>> : x \in (IF e.hosts = <<>> THEN {""} ELSE SetOf(e.hosts)),
                                           y \in (IF e.paths = <<>> THEN {"/"} ELSE SetOf(e.paths))}
                          ELSE {} ]
      groupKinds == DeployKinds \cup {"remove"}
      pend == {h.cmd[k].kind : k \in sv.pending}
      ovlD == e.kind \in groupKinds /\ pend \cap groupKinds # {}
      ovlP == \/ e.kind \in PauseKinds /\ pend \cap (PauseKinds \cup {"remove"}) # {}
              \/ e.kind = "remove" /\ pend \cap PauseKinds # {}
      sv2  == [sv EXCEPT !.pending = @ \cup {e.c}, !.mess = @ \/ ovlD, !.messP = @ \/ ovlP,
                         !.pdef = IF e.kind \in PauseKinds THEN FALSE ELSE @]
      cmd2 == [k \in DOMAIN h.cmd |-> IF k \in sv.pending THEN [h.cmd[k] EXCEPT !.ovl = TRUE] ELSE h.cmd[k]]
  IN [h EXCEPT !.cmd = Put(cmd2, e.c, c),
               !.tg  = [u \in tgs |-> NewTg(e.c)] @@ @,
               !.svc = Put(@, s, sv2)]

UpdCmdRet(h, e) ==
  LET c     == h.cmd[e.c]
      s     == c.svc
      sv    == h.svc[s]
      ok    == e.res = "ok"
      prev  == IF ok /\ c.kind = "deploy" THEN TargetsOf(h, sv.cur)
               ELSE IF ok /\ c.kind = "rollout_deploy" THEN TargetsOf(h, sv.curR)
               ELSE IF ok /\ c.kind = "remove" THEN TargetsOf(h, sv.cur) \cup TargetsOf(h, sv.curR)
               ELSE IF ~ok /\ c.kind \in DeployKinds THEN c.targets
               ELSE {}
      why   == IF ~ok THEN "failed" ELSE IF c.kind = "remove" THEN "removed" ELSE "replaced"
      okTs  == {h.tg[u].okT : u \in {v \in c.targets : h.tg[v].okSeq # 0}}
      start == IF c.kind \in DeployKinds THEN MaxOf(okTs \cup {c.callT}, c.callT) ELSE c.callT
      c2    == [c EXCEPT !.ret = e.seq, !.retT = e.t, !.res = e.res,
                         !.prev = IF c.kind \in DrainKinds THEN @ ELSE prev, !.s = start]
      tg2   == [u \in DOMAIN h.tg |->
                  IF u \in prev /\ h.tg[u].retSeq = 0
                  THEN [h.tg[u] EXCEPT !.retSeq = e.seq, !.retT = e.t, !.retBy = e.c, !.retWhy = why]
                  ELSE h.tg[u]]
      pend2 == sv.pending \ {e.c}
      sv2   == IF ok /\ c.kind = "remove" THEN [NewSvc EXCEPT !.pending = pend2, !.mess = sv.mess, !.messP = sv.messP,
                                                                  !.binds = sv.binds, !.live = FALSE]
               ELSE [sv EXCEPT
                 !.binds = IF ok /\ c.kind = "deploy" THEN c.binds ELSE @,
                 !.epoch = <<>>,
                 !.live = @ \/ (ok /\ c.kind \in DeployKinds),
                 !.pending = pend2,
                 !.cur  = IF ok /\ c.kind = "deploy" THEN e.c ELSE @,
                 !.curR = IF ok /\ c.kind = "rollout_deploy" THEN e.c ELSE @,
                 !.pstate = IF ok /\ c.kind = "pause" THEN "paused"
                            ELSE IF ok /\ c.kind = "stop" THEN "stopped"
                            ELSE IF ok /\ c.kind = "resume" THEN "running" ELSE @,
                 !.pdef = IF c.kind \in PauseKinds
                          THEN ~(\E k \in pend2 : h.cmd[k].kind \in PauseKinds) ELSE @,
                 !.pcmd = IF ok /\ c.kind \in PauseKinds THEN e.c ELSE @,
                 !.split = IF ok /\ c.kind = "rollout_set" THEN TRUE
                           ELSE IF ok /\ c.kind = "rollout_stop" THEN FALSE ELSE @ ]
  IN [h EXCEPT !.cmd = Put(@, e.c, c2), !.tg = tg2, !.svc = Put(@, s, sv2)]

UpdProbe(h, e) ==
  IF ~Has(h.tg, e.tg) THEN h
  ELSE [h EXCEPT !.tg[e.tg].probeT = e.t, !.tg[e.tg].probeN = @ + 1, !.tg[e.tg].inProbe = TRUE]

UpdProbeReply(h, e) ==
  IF ~Has(h.tg, e.tg) THEN h
  ELSE LET t == h.tg[e.tg]
           first == e.cls = "ok" /\ t.okSeq = 0
           s == h.cmd[t.grp].svc
           flip == (e.cls = "ok") # (t.repCls = "ok")
       IN [h EXCEPT !.svc[s].epoch = IF flip THEN <<>> ELSE @,
                    !.tg[e.tg] = [t EXCEPT
             !.okSeq = IF first THEN e.seq ELSE @, !.okT = IF first THEN e.t ELSE @,
             !.repSeq = e.seq, !.repT = e.t, !.repCls = e.cls, !.inProbe = FALSE,
             !.flaky = @ \/ (e.cls # "ok" /\ t.okSeq # 0)]]

UpdCliSend(h, e) ==
  LET sv == SvcOf(h, e.svc)
      r  == [ svc |-> e.svc, kind |-> e.kind, hold |-> e.hold, hc |-> e.hc, cookie |-> e.cookie,
              chunked |-> ("chunked" \in DOMAIN e) /\ e.chunked,
              abort |-> e.abort, tls |-> e.tls, sync |-> e.sync, send |-> e.seq, sendT |-> e.t, recv |-> 0, recvT |-> 0, status |-> 0,
              origin |-> "", intact |-> FALSE, msg |-> "", page |-> "",
              tg |-> NoTg, beg |-> 0, begT |-> 0, endSeq |-> 0, endT |-> 0, how |-> "", nbeg |-> 0,
              curAtSend |-> sv.cur, curRAtSend |-> sv.curR, pAtSend |-> sv.pstate, pdefAtSend |-> sv.pdef,
              pcmdAtSend |-> sv.pcmd, closed |-> 0,
              ver |-> -1, lb |-> 0, stale |-> FALSE, gateSeq |-> 0, gateclaim |-> FALSE, claimSeq |-> 0, accDrain |-> FALSE, rsvc |-> e.svc ]
  IN [h EXCEPT !.rq = Put(@, e.r, r)]

UpdTgBeg(h, e) ==
  IF ~Has(h.tg, e.tg) \/ ~Has(h.rq, e.r) THEN h
  ELSE [h EXCEPT !.rq[e.r].tg = e.tg, !.rq[e.r].beg = e.seq, !.rq[e.r].begT = e.t, !.rq[e.r].nbeg = @ + 1,
                 !.tg[e.tg].nbeg = @ + 1, !.tg[e.tg].open = @ \cup {e.r},
                 \* a claim at the very instant of a probe reply may still have used the previous rotation
                 !.svc[h.cmd[h.tg[e.tg].grp].svc].epoch =
                     IF (\A u \in h.cmd[h.tg[e.tg].grp].targets : h.tg[u].repT < e.t)
                        /\ (\A x \in DOMAIN h.rq \ {e.r} : h.rq[x].recv # 0 /\ h.rq[x].recv < h.rq[e.r].send)
                     THEN Append(@, e.tg) ELSE <<>>]

UpdTgEnd(h, e) ==
  IF ~Has(h.tg, e.tg) \/ ~Has(h.rq, e.r) THEN h
  ELSE [h EXCEPT !.rq[e.r].endSeq = e.seq, !.rq[e.r].endT = e.t, !.rq[e.r].how = e.how,
                 !.tg[e.tg].open = @ \ {e.r}]

UpdCliRecv(h, e) ==
  IF ~Has(h.rq, e.r) THEN h
  ELSE [h EXCEPT !.rq[e.r].recv = e.seq, !.rq[e.r].recvT = e.t, !.rq[e.r].status = e.status,
                 !.rq[e.r].origin = e.origin, !.rq[e.r].intact = e.intact, !.rq[e.r].msg = e.msg,
                 !.rq[e.r].page = e.page]

UpdCliClosed(h, e) == IF ~Has(h.rq, e.r) THEN h ELSE [h EXCEPT !.rq[e.r].closed = e.seq]

\* internal events, used for known-finding signatures only
UpdRouted(h, e) == IF ~Has(h.rq, e.r) THEN h
                   ELSE [h EXCEPT !.rq[e.r].ver = e.ver, !.rq[e.r].rsvc = IF "svc" \in DOMAIN e THEN e.svc ELSE h.rq[e.r].svc]
UpdInstall(h, e) == [h EXCEPT !.inst = Put(@, e.svc, e.ver)]
UpdUpdateLb(h, e) ==
  IF e.slot = 1
  THEN [h EXCEPT !.oldlb = IF Has(h.rlb, e.svc) THEN @ \cup {h.rlb[e.svc]} ELSE @, !.rlb = Put(@, e.svc, e.lb)]
  ELSE h
UpdPreClaim(h, e) == IF ~Has(h.rq, e.r) THEN h ELSE [h EXCEPT !.rq[e.r].lb = e.lb]
\* the moment the request read the pause gate as open: getWaitState returned "running", or the release channel fired
UpdGate(h, e) ==
  IF ~Has(h.rq, e.r) THEN h
  \* a held request's gate opens when its release channel is closed, i.e. at the resume (or stop) that ended the pause -
  \* the waiter may notice it much later
  ELSE IF e.ev = "y_wait_released" THEN [h EXCEPT !.rq[e.r].gateSeq = IF h.relSeq # 0 THEN h.relSeq ELSE e.seq]
  ELSE IF e.state = 0 THEN [h EXCEPT !.rq[e.r].gateSeq = e.seq]
  ELSE h
UpdRemove(h, e) == [h EXCEPT !.inst = Put(@, e.svc, 0)]
UpdPauseState(h, e) == LET g == IF e.state \in {0, 2} THEN [h EXCEPT !.relSeq = e.seq] ELSE h
                       IN IF e.state \in {1, 2} THEN [g EXCEPT !.pauseSeq = e.seq] ELSE g
UpdClaim(h, e) ==
  IF ~Has(h.rq, e.r) THEN h
  ELSE LET r == h.rq[e.r]
           verStale == r.ver > 0 /\ Has(h.inst, r.rsvc) /\ h.inst[r.rsvc] # r.ver
           lbStale  == r.lb \in h.oldlb
       IN [h EXCEPT !.rq[e.r].claimSeq = e.seq, !.rq[e.r].stale = verStale \/ lbStale,
                    !.rq[e.r].gateclaim = r.gateSeq # 0 /\ r.gateSeq < h.pauseSeq,
                    \* the target accepted the request although it was marked draining (both under the same lock):
                    \* never the case in the recorded findings, where such a claim is refused
                    !.rq[e.r].accDrain = (e.ev = "e_claim" /\ <<e.tg, e.tid>> \in h.drn)]
\* draining mark of a target instance (set and cleared under the lock that also guards the claim)
UpdTargetState(h, e) == [h EXCEPT !.drn = IF e.state = 1 THEN @ \cup {<<e.tg, e.tid>>} ELSE @ \ {<<e.tg, e.tid>>}]

\* C12 bookkeeping
UpdMem(h, e) == [h EXCEPT !.mem = Append(@, <<e.seq, e.cfg>>)]
LastMemSeq(h) == IF Len(h.mem) = 0 THEN 0 ELSE h.mem[Len(h.mem)][1]
UpdRunning(h, e) ==
  IF e.ev = "cmd_call" THEN [h EXCEPT !.running = @ \cup {e.c}, !.since = IF h.running = {} THEN LastMemSeq(h) ELSE @]
  ELSE [h EXCEPT !.running = @ \ {e.c}]

Upd(h, e) ==
  CASE e.ev = "reset"          -> UpdReset(e)
    [] e.ev = "mem_obs"        -> UpdMem(h, e)
    [] e.ev = "cmd_call"       -> UpdRunning(UpdCmdCall(h, e), e)
    [] e.ev = "cmd_ret"        -> UpdRunning(UpdCmdRet(h, e), e)
    [] e.ev = "tg_probe"       -> UpdProbe(h, e)
    [] e.ev = "tg_probe_reply" -> UpdProbeReply(h, e)
    [] e.ev = "cli_send"       -> UpdCliSend(h, e)
    [] e.ev = "cli_recv"       -> UpdCliRecv(h, e)
    [] e.ev = "cli_closed"     -> UpdCliClosed(h, e)
    [] e.ev = "tg_beg"         -> UpdTgBeg(h, e)
    [] e.ev = "tg_end"         -> UpdTgEnd(h, e)
    [] e.ev = "end"            -> [h EXCEPT !.done = TRUE]
    [] e.ev = "y_routed"       -> UpdRouted(h, e)
    [] e.ev = "e_install"      -> UpdInstall(h, e)
    [] e.ev = "e_update_lb"    -> UpdUpdateLb(h, e)
    [] e.ev = "y_pre_claim"    -> UpdPreClaim(h, e)
    [] e.ev \in {"y_wait_snapshot", "y_wait_released"} -> UpdGate(h, e)
    [] e.ev = "e_remove"       -> UpdRemove(h, e)
    [] e.ev = "e_pause_state"  -> UpdPauseState(h, e)
    [] e.ev \in {"e_claim", "e_claim_refused", "e_claim_none"} -> UpdClaim(h, e)
    [] e.ev \in {"e_target_state", "e_hc_apply"} -> UpdTargetState(h, e)    \* a probe result may end the draining mark too
    [] OTHER -> h

(***************************************************************************)
(* Known-finding signatures of a request                                   *)
(***************************************************************************)
Sig(r) == IF r.accDrain THEN "accepted-while-draining"
          ELSE IF r.stale /\ r.gateclaim THEN "stale-ref+gate-claim"
          ELSE IF r.stale THEN "stale-ref" ELSE IF r.gateclaim THEN "gate-claim" ELSE ""

(***************************************************************************)
(* Checks                                                                  *)
(***************************************************************************)
If(b, S) == IF b THEN S ELSE {}

\* commands that drained target u and have returned
DrainedBy(h, u) ==
  {k \in DOMAIN h.cmd : /\ h.cmd[k].ret # 0 /\ u \in h.cmd[k].prev
                        /\ \/ h.cmd[k].kind \in DrainKinds
                           \/ h.cmd[k].kind \in DeployKinds /\ h.cmd[k].res = "ok"}

\* natural end of a request at its target (virtual time), given the drain start s
NatEnd(r, s) ==
  IF r.how = "replied" THEN r.endT
  ELSE IF r.kind = "plain" THEN r.begT
  ELSE IF r.kind = "slow" THEN r.begT + r.hold
  \* an upgraded connection is closed when draining begins - if it was already upgraded by then;
  \* one that upgrades during the drain window is cut at the deadline like any other request
  ELSE IF r.kind = "upgrade" /\ r.begT < s THEN s
  ELSE IF r.kind = "slowupgrade" /\ r.begT + r.hold < s THEN s
  ELSE Infinity

\* a client request r begins at target e.tg
ChkTgBeg(h, e) ==
  IF ~Has(h.tg, e.tg) \/ ~Has(h.rq, e.r) THEN {V("HARNESS", e.r, "", "unknown target or request in tg_beg")}
  ELSE
  LET t  == h.tg[e.tg]
      c  == h.cmd[t.grp]
      r  == h.rq[e.r]
      sv == SvcOf(h, c.svc)
      notOk == {u \in c.targets : h.tg[u].okSeq = 0}
  IN  If(notOk # {}, {V("C01_a", e.r, Sig(r), <<"target", e.tg, "group member without a 2xx probe reply", notOk>>)})
   \cup If(c.ret # 0 /\ c.res # "ok", {V("C01_c", e.r, Sig(r), <<"request reached target of failed deploy", e.tg, t.grp>>)})
   \cup If(r.svc # "?" /\ r.svc # c.svc, {V("C04_svc", e.r, Sig(r), <<"request for", r.svc, "reached target of", c.svc>>)})
   \cup If(t.retSeq # 0 /\ t.retWhy = "replaced",      \* (remove does not drain: no promise there)
           {V("C03_b", e.r, IF sv.mess THEN "same-service-race" ELSE Sig(r), <<"request sent to", e.tg, "after", t.retBy, "returned", t.retWhy>>)})
   \cup If(~sv.messP /\ sv.pdef /\ sv.pstate = "paused" /\ r.send > h.cmd[sv.pcmd].ret,
           {V("C07_a", e.r, Sig(r), <<"request sent while paused forwarded before resume", e.tg>>)})
   \cup If(~sv.messP /\ sv.pdef /\ sv.pstate \in {"paused", "stopped"},
           {V("C03_b", e.r, Sig(r), <<"request sent to drained target while", sv.pstate, e.tg>>)})
   \cup If(~sv.messP /\ sv.pdef /\ sv.pstate = "stopped",
           {V("C08_fwd", e.r, Sig(r), <<"request forwarded while stopped", e.tg>>)})
   \cup (LET healthy == {u \in TargetsOf(h, sv.cur) : h.tg[u].okSeq # 0 /\ h.tg[u].repCls = "ok"}
              k == Cardinality(healthy)
              ep == Append(sv.epoch, e.tg)
              n == Len(ep)
              lastk == {ep[i] : i \in (n - k + 1)..n}
          IN \* C09_c: while the healthy set is unchanged, any k consecutive sequential claims are k different targets
             \* (claims are observed as arrivals at the targets: they are in claim order only when requests do not overlap)
             If(h.urgent /\ r.sync /\ ~sv.mess /\ sv.pending = {} /\ r.cookie = "" /\ e.tg \in healthy /\ k >= 2 /\ n >= k
                /\ (\A x \in DOMAIN h.rq \ {e.r} : h.rq[x].recv # 0 /\ h.rq[x].recv < r.send)
                /\ (\A u \in TargetsOf(h, sv.cur) : h.tg[u].repT < e.t) /\ Cardinality(lastk) < k,
                {V("C09_c", e.r, Sig(r), <<"rotation not fair: last claims", SubSeq(ep, n - k + 1, n), "healthy", healthy>>)}))
   \cup If(h.urgent /\ t.repSeq # 0 /\ t.repCls # "ok" /\ e.t > t.repT,
           {V("C09_b", e.r, Sig(r), <<"request sent to target whose latest probe failed", e.tg, t.repCls, t.repT>>)})

ChkTgEnd(h, e) ==
  IF ~Has(h.tg, e.tg) \/ ~Has(h.rq, e.r) THEN {}
  ELSE
  LET r == h.rq[e.r]
      late == {k \in DrainedBy(h, e.tg) : r.beg < h.cmd[k].ret /\ e.t > h.cmd[k].retT}
  IN If(late # {}, {V("C03_a", e.r, IF \E k \in late : h.cmd[k].ovl THEN "concurrent-drain" ELSE Sig(r),
                      <<"still served by", e.tg, "after return of", late, "ended", e.t>>)})

\* is the cancellation / closing of r at its target at time r.endT explained?
Explained(h, r) ==
  \/ r.abort # 0
  \/ r.how = "cancelled" /\ r.endT = r.begT + RespTimeout
  \/ \E k \in DOMAIN h.cmd :
        /\ \/ r.tg \in h.cmd[k].prev
           \* a pause / stop issued while a redeploy of the service was in progress may find the new group installed already
           \/ /\ h.cmd[k].kind \in DrainKinds
              /\ \E d \in DOMAIN h.cmd : /\ h.cmd[d].kind \in DeployKinds /\ h.cmd[d].svc = h.cmd[k].svc
                                          /\ r.tg \in h.cmd[d].targets /\ h.cmd[d].call < h.cmd[k].call
                                          /\ (h.cmd[d].ret = 0 \/ h.cmd[d].ret > h.cmd[k].call)
        /\ h.cmd[k].kind \in DrainKinds \/ h.cmd[k].ret # 0
        /\ IF r.how = "closed" THEN r.endT = Max(h.cmd[k].s, r.begT) \/ r.endT = h.cmd[k].s + h.cmd[k].drto
           ELSE r.endT = h.cmd[k].s + h.cmd[k].drto

ChkCmdRet(h, g, e) ==
  LET c  == g.cmd[e.c]
      sv == c.pre
      dk == c.kind \in DeployKinds
      begun == {u \in c.targets : g.tg[u].nbeg > 0}
      \* (the deadline is compared only under the urgency rule: otherwise the goroutine that arms the
      \*  deploy timer may itself have been held back for an arbitrary time)
      lateOk == {u \in c.targets : g.tg[u].okSeq = 0 \/ (h.urgent /\ g.tg[u].okT > c.callT + c.dto)}
      served == {r \in DOMAIN g.rq : g.rq[r].beg # 0 /\ g.rq[r].tg \in c.prev}
      bound == MaxOf({Min(NatEnd(g.rq[r], c.s), c.s + c.drto) : r \in served} \cup {c.s}, c.s)
  IN  If(dk /\ c.res = "ok" /\ lateOk # {},
         {V("C01_b", e.c, "", <<"deploy ok although no 2xx probe reply within the deploy timeout from", lateOk>>)})
   \cup If(dk /\ c.res # "ok" /\ begun # {},
         {V("C01_c", e.c, "", <<"targets of failed deploy received requests", begun>>)})
   \cup If(h.urgent /\ ~c.ovl /\ dk /\ e.t > c.callT + c.dto + c.drto,
         {V("C17_a", e.c, "", <<"returned after deploy-timeout + drain-timeout", c.callT, e.t>>)})
   \cup If(h.urgent /\ ~c.ovl /\ dk /\ c.res # "ok" /\ e.t > c.callT + c.dto,
         {V("C17_a", e.c, "", <<"failed deploy returned after deploy-timeout", c.callT, e.t>>)})
   \cup If(h.urgent /\ ~c.ovl /\ c.kind \in DrainKinds /\ e.t > c.callT + c.drto,
         {V("C17_a", e.c, "", <<"returned after drain-timeout", c.callT, e.t>>)})
   \cup If(h.urgent /\ ~c.ovl /\ c.kind \in Instant /\ e.t # c.callT,
         {V("C17_a", e.c, "", <<"command should not wait", c.callT, e.t>>)})
   \cup If(h.urgent /\ ~c.ovl /\ c.res = "ok" /\ (dk \/ c.kind \in DrainKinds) /\ e.t > bound,
         {V("C17_b", e.c, "", <<"returned later than its condition was met", bound, e.t>>)})
   \cup (LET \* services whose bindings are settled: live, and no command that may move or remove them is in progress
              \* (after overlapping group-changing commands on one service its bindings cannot be told from the results:
              \*  the later install may have put the older version back - those are judged from `list` alone, ChkList)
              settled == {x \in DOMAIN g.svc : g.svc[x].live /\ ~g.svc[x].mess
                                              /\ ~\E k \in g.svc[x].pending : g.cmd[k].kind \in (DeployKinds \cup {"remove"})}
              clash == {<<x, y>> \in settled \X settled : x # y /\ g.svc[x].binds \cap g.svc[y].binds # {}}
          IN If(c.kind \in (DeployKinds \cup {"remove"}) /\ clash # {},
                {V("C05_a", e.c, "", <<"two services own the same host and path", clash>>)}))
   \cup If(e.res \notin {"ok", "unhealthy", "host_in_use", "not_found", "invalid_target", "cert", "error_pages",
                         "acme_wildcard", "rollout_not_set"},
         {V("C18_panic", e.c, "", <<"command ended abnormally", e.res>>)})

\* C02: the set of targets that may legitimately answer request r, received now (seq)
Overlapping(h, r, seq) ==
  {k \in DOMAIN h.cmd : /\ h.cmd[k].svc = r.svc
                        /\ h.cmd[k].call < seq
                        /\ h.cmd[k].ret = 0 \/ h.cmd[k].ret > r.send}

Allowed(h, r, seq) ==
  TargetsOf(h, r.curAtSend)
  \cup UNION {h.cmd[k].targets : k \in {j \in Overlapping(h, r, seq) :
                 h.cmd[j].kind = "deploy" /\ (h.cmd[j].ret = 0 \/ h.cmd[j].res = "ok")}}

C02pre(h, r, seq, now) ==
  LET ov == Overlapping(h, r, seq) IN
  /\ Has(h.svc, r.svc) /\ ~h.svc[r.svc].mess
  /\ r.kind \in {"plain", "slow"} /\ ~r.hc /\ r.abort = 0 /\ r.cookie = ""
  /\ r.curAtSend # NoCmd
  /\ r.pAtSend = "running" /\ r.pdefAtSend
  /\ \A k \in ov : h.cmd[k].kind = "deploy"
  /\ r.kind = "slow" => r.hold < RespTimeout - 100
  \* "provided requests in flight finish within the drain timeout": the whole life of the request
  \* (including time its goroutine spent descheduled) is shorter than every overlapping drain timeout
  /\ \A k \in ov : now - r.sendT < h.cmd[k].drto
  /\ \A u \in Allowed(h, r, seq) : ~h.tg[u].flaky

(***************************************************************************)
(* Pause / stop / resume (C07, C08).  The operator-visible state of a      *)
(* service is definite only between the return of the pause-type command   *)
(* that set it and the call of the next one (pdef).                        *)
(***************************************************************************)
\* pause-type commands of r's service called during r's life so far
PauseCalls(h, r, seq) ==
  {k \in DOMAIN h.cmd : /\ h.cmd[k].svc = r.svc /\ h.cmd[k].kind \in PauseKinds
                        /\ h.cmd[k].call > r.send /\ h.cmd[k].call < seq}
\* other commands overlapping r's life
OtherCalls(h, r, seq) == {k \in Overlapping(h, r, seq) : h.cmd[k].kind \notin PauseKinds}
FirstOf(h, S) == CHOOSE k \in S : \A j \in S : h.cmd[k].call <= h.cmd[j].call

AllowedAfter(h, r, f, seq) ==
  TargetsOf(h, h.cmd[f].pre.cur)
  \cup UNION {h.cmd[k].targets : k \in {j \in DOMAIN h.cmd :
                 /\ h.cmd[j].svc = r.svc /\ h.cmd[j].kind = "deploy" /\ h.cmd[j].call < seq
                 /\ h.cmd[j].ret = 0 \/ (h.cmd[j].ret > h.cmd[f].call /\ h.cmd[j].res = "ok")}}

PausePre(h, r, seq) ==
  /\ Has(h.svc, r.svc) /\ ~h.svc[r.svc].messP
  /\ r.kind \in {"plain", "slow"} /\ r.abort = 0 /\ r.cookie = "" /\ ~r.tls
  /\ r.curAtSend # NoCmd /\ r.pdefAtSend
  /\ \A k \in OtherCalls(h, r, seq) : h.cmd[k].kind = "deploy"

ChkPause(h, r, rid, e) ==
  IF ~PausePre(h, r, e.seq) THEN {} ELSE
  LET P      == PauseCalls(h, r, e.seq)
      Pp     == {k \in P : h.cmd[k].kind # "pause"}          \* a repeated pause does not affect a held request
      mps    == {h.cmd[k].maxPause : k \in {j \in P : h.cmd[j].kind = "pause"}}
                \cup (IF r.pAtSend = "paused" THEN {h.cmd[r.pcmdAtSend].maxPause} ELSE {})
      dlMin  == r.sendT + MinOf(mps, 0)
      dlMax  == r.sendT + MaxOf(mps, 0)
      steady == \A u \in TargetsOf(h, r.curAtSend) : ~h.tg[u].flaky
  IN
  IF r.hc THEN
     \* C07_e: health-check GET while definitely paused or stopped: 200 from the proxy itself, at once
     If(r.pAtSend \in {"paused", "stopped"} /\ P = {} /\
        ~(e.status = 200 /\ e.origin = "proxy" /\ (h.urgent => e.t = r.sendT)),
        {V("C07_e", rid, Sig(r), <<"health-check request while", r.pAtSend, "got", e.status, e.origin, e.t>>)})
  ELSE IF r.pAtSend = "paused" THEN
     IF Pp = {} THEN
        \* C07_d: neither resumed nor stopped: 504 once held longer than max-pause
        If(~(e.status = 504 /\ e.t >= dlMin /\ (h.urgent => e.t <= dlMax)),
           {V("C07_d", rid, Sig(r), <<"held request answered", e.status, "at", e.t, "max-pause deadline", dlMin, dlMax>>)})
     ELSE LET f == FirstOf(h, Pp) IN
        IF Pp # {f} \/ h.cmd[f].callT >= dlMin \/ (\E k \in P : h.cmd[k].call > h.cmd[f].call) THEN {}
        ELSE IF h.cmd[f].kind = "resume" THEN
           \* C07_b: released by resume: forwarded to the targets the service has at that moment
           If(steady /\ (\A u \in AllowedAfter(h, r, f, e.seq) : ~h.tg[u].flaky)
              /\ (r.kind = "slow" => r.hold < RespTimeout - 100)
              /\ (\A k \in OtherCalls(h, r, e.seq) : e.t - h.cmd[f].callT < h.cmd[k].drto)
              /\ ~(e.status = 200 /\ e.origin \in AllowedAfter(h, r, f, e.seq) /\ e.intact),
              {V("C07_b", rid, Sig(r), <<"held request released by resume got", e.status, e.origin, "allowed", AllowedAfter(h, r, f, e.seq)>>)})
        ELSE
           \* C07_c: stopped while held: 503 with the stop message
           If(~(e.status = 503 /\ e.msg = h.cmd[f].msg /\ ~e.markup),
              {V("C07_c", rid, Sig(r), <<"held request after stop got", e.status, e.msg, "expected 503", h.cmd[f].msg>>)})
  ELSE IF r.pAtSend = "stopped" THEN
     \* C08: definitely stopped and not disturbed: 503 with the operator's message, at once,
     \* rendered from the service's own 503 page if it has one and from the built-in page otherwise
     LET page == IF r.curAtSend # NoCmd /\ Has(h.cmd, r.curAtSend) /\ h.cmd[r.curAtSend].pages503 THEN "custom503" ELSE "builtin"
         steadyPages == \A k \in DOMAIN h.cmd : (h.cmd[k].svc = r.svc /\ h.cmd[k].kind = "deploy") => h.cmd[k].pages503 = (page = "custom503")
     IN
     If(P = {} /\ ~(e.status = 503 /\ e.msg = h.cmd[r.pcmdAtSend].msg /\ ~e.markup /\ (h.urgent => e.t = r.sendT)),
        {V("C08", rid, Sig(r), <<"request while stopped got", e.status, e.msg, "markup", e.markup, "expected 503", h.cmd[r.pcmdAtSend].msg, e.t>>)})
     \cup If(P = {} /\ e.status = 503 /\ steadyPages /\ e.page # page,
        {V("C08", rid, Sig(r), <<"503 of a stopped service rendered from", e.page, "expected", page>>)})
  ELSE
     \* C07_f: running at send: a 503 needs a stop during the request's life (or failing targets)
     \* (requests overlapping a redeploy are C02's business, not this one's)
     If(e.status = 503 /\ steady /\ (\A k \in P : h.cmd[k].kind # "stop") /\ OtherCalls(h, r, e.seq) = {}
        /\ (\A u \in Allowed(h, r, e.seq) : ~h.tg[u].flaky),
        {V("C07_f", rid, Sig(r), <<"503 although the service was never stopped during the request", P>>)})

\* a plain request of a running, deployed service with no command overlapping its life
C02like(h, r, seq) ==
  /\ Has(h.svc, r.svc) /\ ~h.svc[r.svc].mess /\ r.kind = "plain" /\ ~r.hc /\ r.abort = 0 /\ r.cookie = ""
  /\ r.curAtSend # NoCmd /\ r.pAtSend = "running" /\ r.pdefAtSend /\ Overlapping(h, r, seq) = {}

ChkCliRecv(h, g, e) ==
  IF ~Has(h.rq, e.r) THEN {V("HARNESS", e.r, "", "unknown request in cli_recv")}
  ELSE
  LET r == g.rq[e.r]
      al == Allowed(h, r, e.seq)
  IN  If(C02pre(h, r, e.seq, e.t) /\ ~(e.status = 200 /\ e.origin \in al /\ e.intact),
         {V("C02", e.r, Sig(r), <<"status", e.status, "origin", e.origin, "allowed", al>>)})
   \cup If(r.how = "replied" /\ r.abort = 0 /\ r.kind \notin {"upgrade", "slowupgrade"} /\ ~(e.status = 200 /\ e.origin = r.tg /\ e.intact),
         {V("C03_c", e.r, Sig(r), <<"target replied but client got", e.status, e.origin>>)})
   \* a response that was already under way when it was cut cannot become a 504 any more: it must be visibly incomplete
   \cup If(r.how = "cancelled" /\ r.abort = 0 /\ e.status # 504 /\ ~(r.chunked /\ e.status = 200 /\ ~e.intact),
         {V("C03_c", e.r, Sig(r), <<"request cut off without a 504", e.status>>)})
   \cup ChkPause(h, r, e.r, e)
   \cup (LET grp == TargetsOf(h, r.curAtSend)
              dead == \A u \in grp : h.tg[u].repSeq # 0 /\ h.tg[u].repCls # "ok" /\ h.tg[u].repT < r.sendT /\ ~h.tg[u].inProbe
          IN \* C09_d: no healthy target during the whole life of the request: 503, nothing forwarded
             If(h.urgent /\ C02like(h, r, e.seq) /\ grp # {} /\ dead /\ ~(e.status = 503 /\ r.beg = 0),
                {V("C09_d", e.r, Sig(r), <<"no healthy target but got", e.status, e.origin>>)}))

ChkProbe(h, e) ==
  IF ~Has(h.tg, e.tg) THEN {}
  ELSE
  LET t == h.tg[e.tg]
      c == h.cmd[t.grp]
      race == IF SvcOf(h, c.svc).mess THEN "same-service-race" ELSE ""
  IN  If(t.retSeq # 0 /\ e.t > t.retT,
         {V("C17_c", e.tg, race, <<"probe after", t.retBy, t.retWhy, "returned at", t.retT, "probe at", e.t>>)}
         \cup If(t.retWhy = "failed", {V("C06_b", e.tg, race, <<"rejected target still probed at", e.t>>)}))
   \cup If(h.urgent /\ t.retSeq = 0 /\ t.probeT >= 0 /\ c.hcT < c.hcI /\ e.t - t.probeT # c.hcI,
         {V("C09_a", e.tg, "", <<"probe spacing", t.probeT, e.t, "interval", c.hcI>>)})

ChkEnd(h, e) ==
  LET unanswered == {r \in DOMAIN h.rq : h.rq[r].recv = 0}
      stillOpen == {r \in DOMAIN h.rq : /\ h.rq[r].beg # 0 /\ h.rq[r].endSeq = 0
                                        /\ \E k \in DrainedBy(h, h.rq[r].tg) : h.rq[r].beg < h.cmd[k].ret}
      \* (exact drain-start times are not reconstructed when commands on the service overlapped)
      unexplained == {r \in DOMAIN h.rq : /\ h.rq[r].how \in {"cancelled", "closed"}
                                          /\ ~SvcOf(h, h.rq[r].svc).mess
                                          /\ ~Explained(h, h.rq[r])}
      \* upgraded connections that survived the start of a drain of their target
      survivors == {r \in DOMAIN h.rq :
                      /\ h.rq[r].kind \in {"upgrade", "slowupgrade"} /\ h.rq[r].beg # 0
                      /\ ~SvcOf(h, h.rq[r].svc).mess
                      /\ \E k \in DrainedBy(h, h.rq[r].tg) :
                            /\ h.rq[r].begT + h.rq[r].hold < h.cmd[k].s
                            /\ h.rq[r].endSeq = 0 \/ h.rq[r].endT > h.cmd[k].s}
      live == {u \in DOMAIN h.tg : /\ h.tg[u].retSeq = 0 /\ h.cmd[h.tg[u].grp].res = "ok"
                                   /\ h.cmd[h.tg[u].grp].hcT < h.cmd[h.tg[u].grp].hcI
                                   /\ h.tg[u].probeT < e.t - h.cmd[h.tg[u].grp].hcI}
  IN  {V("LIVE_answer", r, Sig(h.rq[r]), <<"request never answered", h.rq[r].kind>>) : r \in unanswered}
   \cup {V("C03_a", r, Sig(h.rq[r]), <<"still open on drained target at end", h.rq[r].tg>>) : r \in stillOpen}
   \cup If(h.urgent, {V("C03_c", r, Sig(h.rq[r]), <<"cut off at", h.rq[r].endT, "with no drain deadline to explain it", h.rq[r].how>>) : r \in unexplained})
   \cup If(h.urgent, {V("C03_c", r, Sig(h.rq[r]), <<"upgraded connection not closed when draining began">>) : r \in survivors})
   \cup If(h.urgent, {V("C09_a", u, "", <<"live target no longer probed; last probe", h.tg[u].probeT>>) : u \in live})
   \* C06: ... and if a command on that service failed after the group was deployed, the failure changed something
   \cup If(h.urgent, {V("C06_c", u, "", <<"live target no longer probed after a failed command; last probe", h.tg[u].probeT>>) :
                        u \in {v \in live : \E k \in DOMAIN h.cmd :
                                   /\ h.cmd[k].svc = h.cmd[h.tg[v].grp].svc /\ h.cmd[k].ret # 0
                                   /\ h.cmd[k].res \notin {"ok", ""} /\ h.cmd[k].ret > h.cmd[h.tg[v].grp].ret}})

(***************************************************************************)
(* C12: the state file.  file_obs = what a proxy started at this instant   *)
(* would read (at every step boundary of every snapshot write and at every *)
(* command return).                                                        *)
(***************************************************************************)
ChkFile(h, e) ==
  LET allowed == {h.mem[i][2] : i \in {j \in 1..Len(h.mem) : h.mem[j][1] >= h.since}}
      current == IF Len(h.mem) = 0 THEN "[]" ELSE h.mem[Len(h.mem)][2]
      quiet == h.running = {}      \* (the returning command has already been removed: Chk sees the updated history)
  IN  \* C12_a: at any instant the file is one complete snapshot: decodable, and equal to a configuration that was in
      \*        force at some moment since the oldest command still in progress began
      If(~e.ok, {V("C12_a", e.c, "", <<"state file not decodable at", e.point>>)})
   \cup If(e.ok /\ Len(h.mem) > 0 /\ e.cfg \notin allowed,
           {V("C12_a", e.c, "", <<"state file at", e.point, "is not a configuration in force since the command began">>)})
      \* C12_b: once every command has returned the file describes the configuration then in force
   \cup If(e.ok /\ e.point = "returned" /\ quiet /\ e.cfg # current,
           {V("C12_b", e.c, "", <<"all commands returned but the state file does not describe the current configuration">>)})

\* C05, as the operator sees it: in the output of `list`, taken at any moment, no host/path pair appears under two services
ChkList(e) ==
  LET pairs(x) == {<<hh, pp>> : hh \in SetOf(x.hosts), pp \in SetOf(x.paths)}
      n == Len(e.svcs)
      clash == {<<e.svcs[ab[1]].name, e.svcs[ab[2]].name>> :
                  ab \in {x \in (1..n) \X (1..n) : x[1] # x[2] /\ pairs(e.svcs[x[1]]) \cap pairs(e.svcs[x[2]]) # {}}}
  IN If(clash # {}, {V("C05_a", e.c, "", <<"list shows a host and path under two services", clash>>)})

Chk(h, g, e) ==
  CASE e.ev = "tg_beg"    -> ChkTgBeg(h, e)
    [] e.ev = "tg_end"    -> ChkTgEnd(h, e)
    [] e.ev = "cmd_ret"   -> ChkCmdRet(h, g, e)
    [] e.ev = "cli_recv"  -> ChkCliRecv(h, g, e)
    [] e.ev = "tg_probe"  -> ChkProbe(h, e)
    [] e.ev = "end"       -> ChkEnd(h, e)
    [] e.ev = "panic"     -> {V("C18_panic", e.c, "", <<"panic", e.what>>)}
    [] e.ev = "file_obs"  -> ChkFile(g, e)
    [] e.ev = "list_obs"  -> ChkList(e)
    [] e.ev = "harness_error" -> {V("HARNESS", "", "", e.what)}
    [] OTHER -> {}
(***************************************************************************)
(* Which checks had their antecedent satisfied by this event (for the      *)
(* vacuity counters in the evidence).                                      *)
(***************************************************************************)
Exercised(h, g, e) ==
  CASE e.ev = "tg_beg" /\ Has(h.tg, e.tg) /\ Has(h.rq, e.r) ->
         {"C01_a", "C01_c", "C03_b", "C04_svc"}
         \cup If(SvcOf(h, h.rq[e.r].svc).pstate # "running" \/ h.rq[e.r].pAtSend # "running", {"C07_a", "C08_fwd"})
         \cup If(h.urgent /\ h.tg[e.tg].flaky, {"C09_b"})
         \cup If(h.urgent /\ h.rq[e.r].sync /\ Len(SvcOf(h, h.cmd[h.tg[e.tg].grp].svc).epoch) >= 2, {"C09_c"})
    [] e.ev = "tg_end" /\ Has(h.tg, e.tg) /\ Has(h.rq, e.r) ->
         If(\E k \in DOMAIN h.cmd : e.tg \in h.cmd[k].prev, {"C03_a"})
    [] e.ev = "cmd_ret" ->
         LET c == g.cmd[e.c] IN
         If(c.kind \in DeployKinds /\ c.res = "ok", {"C01_b"})
         \cup If(c.kind \in DeployKinds /\ c.res = "unhealthy", {"C01_c"})
         \cup If(h.urgent /\ ~c.ovl, {"C17_a"})
         \cup If(h.urgent /\ ~c.ovl /\ c.res = "ok" /\ c.prev # {} /\ \E r \in DOMAIN g.rq : g.rq[r].tg \in c.prev, {"C17_b"})
         \cup {"C18_panic"}
         \cup If(c.kind \in DeployKinds /\ c.res = "host_in_use", {"C05_a"})
    [] e.ev = "cli_recv" /\ Has(h.rq, e.r) ->
         LET r == g.rq[e.r] IN
         If(C02pre(h, r, e.seq, e.t), {"C02"})
         \cup If(e.status = 503 /\ h.urgent /\ C02like(h, r, e.seq), {"C09_d"})
         \cup If(C02pre(h, r, e.seq, e.t) /\ \E k \in Overlapping(h, r, e.seq) : TRUE, {"C02_overlap"})
         \cup If(r.how \in {"replied", "cancelled"} /\ \E k \in DOMAIN h.cmd : r.tg \in h.cmd[k].prev, {"C03_c"})
         \cup If(PausePre(h, r, e.seq) /\ r.hc /\ r.pAtSend \in {"paused", "stopped"}, {"C07_e"})
         \cup If(PausePre(h, r, e.seq) /\ ~r.hc /\ r.pAtSend = "paused" /\ e.status = 504, {"C07_d"})
         \cup If(PausePre(h, r, e.seq) /\ ~r.hc /\ r.pAtSend = "paused" /\ e.status = 200, {"C07_b"})
         \cup If(PausePre(h, r, e.seq) /\ ~r.hc /\ r.pAtSend = "paused" /\ e.status = 503, {"C07_c"})
         \cup If(PausePre(h, r, e.seq) /\ ~r.hc /\ r.pAtSend = "stopped", {"C08"})
         \cup If(PausePre(h, r, e.seq) /\ ~r.hc /\ r.pAtSend = "running" /\ PauseCalls(h, r, e.seq) # {}, {"C07_f"})
    [] e.ev = "tg_probe" /\ Has(h.tg, e.tg) ->
         If(h.urgent /\ h.tg[e.tg].retSeq = 0 /\ h.tg[e.tg].probeT >= 0, {"C09_a"})
    [] e.ev = "file_obs" -> {"C12_a"} \cup If(e.point = "returned" /\ g.running = {}, {"C12_b"})
    [] e.ev = "list_obs" -> If(Len(e.svcs) >= 2, {"C05_a"})
    [] e.ev = "end" ->
         If(\E u \in DOMAIN h.tg : h.tg[u].retSeq # 0 /\ e.t > h.tg[u].retT + h.cmd[h.tg[u].grp].hcI, {"C17_c"})
         \cup If(\E u \in DOMAIN h.tg : h.tg[u].retWhy = "failed" /\ e.t > h.tg[u].retT + h.cmd[h.tg[u].grp].hcI, {"C06_b"})
         \cup If(h.urgent /\ \E r \in DOMAIN h.rq : h.rq[r].how \in {"cancelled", "closed"}, {"C03_c_cut"})
    [] OTHER -> {}
=============================================================================
