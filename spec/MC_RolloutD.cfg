SPECIFICATION Spec
CONSTANTS
  t1 = t1
  t2 = t2
  t3 = t3
  r1 = r1
  r2 = r2
  r3 = r3
  NoTarget = NoTarget
  Cmds <- CmdsD
  Group <- GrpD
  Reqs = {r1, r2}
  Kinds = {"plain", "forever"}
  MaxProbes = 1
  AllowBad = FALSE
  SignalAfterNotify = TRUE
  Exempt = TRUE
SYMMETRY Sym2
INVARIANTS
  TypeOK
  D_C01_a
  D_C01_b
  D_C01_c
  D_C02
  D_C03_a
  D_C03_b
  D_C03_p
  D_C07_a
  D_C09
  D_C10
  D_C10_split
  D_C17_c
CHECK_DEADLOCK TRUE
