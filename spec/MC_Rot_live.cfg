SPECIFICATION FairSpec
CONSTANTS
  Targets <- T2
  Order <- Order2
  MaxProbes = 2
  MaxClaims = 1
  BuildUnderLock = TRUE
  NotifyAlways = FALSE
  CoalesceRebuilds = FALSE
PROPERTIES
  L_Settles
CHECK_DEADLOCK FALSE
