----------------------------- MODULE OpsTrace -----------------------------
(***************************************************************************)
(* Trace validation for the sequential families.  The configuration        *)
(* (routing table + pause / rollout state per service) is rebuilt from the *)
(* recorded commands with the operators of Ops.tla and Routing.tla; every  *)
(* command result, every observed (host, path, scheme, cookie) -> outcome  *)
(* line, every certificate lookup and every configuration snapshot         *)
(* (cfg_obs: `list`, in-memory options, pause and rollout state, parsed    *)
(* state file) is compared with what the specification computes:           *)
(*   C04 / C16  Decision, Cert           C05  host_in_use exactly when     *)
(*   C06  result in Errors(...), and a failing command leaves the          *)
(*        configuration snapshot unchanged                                 *)
(*   C10  cookie requests go to the rollout targets exactly when           *)
(*        UsesRollout; C08 stopped -> 503 with the message; C07 paused ->  *)
(*        held                                                             *)
(*   C11  a restart leaves the snapshot unchanged and every later line     *)
(*        still matches                                                    *)
(***************************************************************************)
EXTENDS Ops, Json, IOUtils

Log == ndJsonDeserialize(IOEnv.VERIF_TRACE)

SetOf(s) == {s[i] : i \in 1..Len(s)}

VARIABLES l, tbl, ext, tgt, tgtR, pend, viol, cov, broken, cfg, cmp, restarted, dead
vars == <<l, tbl, ext, tgt, tgtR, pend, viol, cov, broken, cfg, cmp, restarted, dead>>
If(b, S) == IF b /\ Cardinality(viol) < 100 THEN S ELSE {}

\* signature of known finding KF-wildcard-sync (see RoutingTrace)
WildcardSync == \E s \in DOMAIN tbl : /\ ~ServesRoot(tbl[s]) /\ (\E h \in tbl[s].hosts : IsWild(h))
                                       /\ Effective(tbl, s).tls

Init == /\ l = 1 /\ tbl = <<>> /\ ext = <<>> /\ tgt = <<>> /\ tgtR = <<>> /\ pend = <<>> /\ viol = {} /\ cov = <<>>
        /\ broken = FALSE /\ cfg = "" /\ cmp = "" /\ restarted = FALSE /\ dead = <<>> /\ TLCSet(1, 0)

V(inv, subj, sig, detail, e) == [inv |-> inv, subj |-> subj, sig |-> sig, detail |-> ToString(detail), scn |-> e.scn, line |-> l, post |-> restarted]

OptOf(e) == [hosts |-> SetOf(e.hostsL), paths |-> SetOf(e.pathsL), tls |-> e.tls, redirect |-> e.redirect, acme |-> e.acme]

Bump(inv) == [i \in DOMAIN cov \cup {inv} |-> (IF i \in DOMAIN cov THEN cov[i] ELSE 0) + (IF i = inv THEN 1 ELSE 0)]
Bump2(a, b) == [i \in DOMAIN cov \cup {a, b} |-> (IF i \in DOMAIN cov THEN cov[i] ELSE 0) + (IF i \in {a, b} THEN 1 ELSE 0)]

Same == UNCHANGED <<tbl, ext, tgt, tgtR, pend, broken, cfg, cmp, restarted, dead>>

Step ==
  /\ l <= Len(Log)
  /\ LET e == Log[l] IN
     CASE e.ev = "reset" ->
            /\ tbl' = <<>> /\ ext' = <<>> /\ tgt' = <<>> /\ tgtR' = <<>> /\ pend' = <<>> /\ broken' = FALSE /\ cfg' = "" /\ cmp' = "" /\ restarted' = FALSE /\ dead' = <<>>
            /\ UNCHANGED <<viol, cov>>
       [] e.ev = "cfg_obs" ->
            \* a snapshot taken right after a command that must not have changed anything is compared with the one before it
            /\ viol' = viol \cup If(cmp # "" /\ ~broken /\ e.cfg # cfg,
                                    {V(IF cmp = "restart" THEN "C11_cfg" ELSE "C06_a", pend.c, "",
                                       <<"configuration snapshot changed across", cmp>>, e)})
            /\ cov' = IF cmp = "" THEN cov ELSE Bump(IF cmp = "restart" THEN "C11_cfg" ELSE "C06_a")
            /\ cfg' = e.cfg /\ cmp' = ""
            /\ UNCHANGED <<tbl, ext, tgt, tgtR, pend, broken, restarted, dead>>
       [] e.ev = "cmd_call" ->
            /\ pend' = e /\ UNCHANGED <<tbl, ext, tgt, tgtR, viol, cov, broken, cfg, cmp, restarted, dead>>
       [] e.ev = "cmd_ret" ->
            LET c == pend
                o == OptOf(c)
                errs == IF c.kind = "restart" THEN {} ELSE Errors(tbl, ext, c.kind, c.svc, o, c.fault)
                good == IF errs = {} THEN e.res = "ok" ELSE e.res \in errs
                bad == ~good /\ ~broken
                inv == IF c.kind = "restart" THEN "C11_restore"
                       ELSE IF e.res = "host_in_use" \/ "host_in_use" \in errs THEN "C05_b"
                       ELSE IF "acme_wildcard" \in errs \/ e.res = "acme_wildcard" THEN "C16_acme"
                       ELSE IF "rollout_not_set" \in errs \/ e.res = "rollout_not_set" THEN "C10_notset"
                       ELSE "C06_res"
                sig == IF c.kind = "restart" /\ WildcardSync THEN "wildcard-sync" ELSE ""
                ok == errs = {}
            IN /\ viol' = viol \cup If(bad, {V(inv, e.c, sig, <<"command", c.kind, c.svc, "returned", e.res, "allowed", IF ok THEN {"ok"} ELSE errs>>, e)})
               \* the configuration follows the specification; if the code disagreed every later line shows it
               /\ tbl' = IF ok THEN TblAfter(tbl, c.kind, c.svc, o) ELSE tbl
               /\ ext' = IF ok THEN ExtAfter(tbl, ext, c.kind, c.svc, c.arg) ELSE ext
               /\ tgt' = IF ok /\ c.kind = "deploy" THEN (c.svc :> c.targets[1]) @@ tgt ELSE tgt
               /\ tgtR' = IF ok /\ c.kind = "rollout_deploy" THEN (c.svc :> c.targets[1]) @@ tgtR
                          ELSE IF ok /\ c.kind = "remove" THEN [x \in DOMAIN tgtR \ {c.svc} |-> tgtR[x]] ELSE tgtR
               /\ cov' = Bump2(inv, IF ok THEN "ok_cmd" ELSE "C06_res")
               /\ cmp' = IF c.kind = "restart" THEN "restart" ELSE IF ~ok THEN "failed " \o c.kind ELSE ""
               /\ broken' = (broken \/ (c.kind = "restart" /\ ~good))
               /\ restarted' = (restarted \/ c.kind = "restart")
               \* targets of a deploy that was rejected must not be probed after it returned (C06 / C17)
               /\ dead' = IF ~ok /\ c.kind \in {"deploy", "rollout_deploy"}
                          THEN [u \in SetOf(c.targets) |-> e.t] @@ dead ELSE dead
               /\ UNCHANGED <<pend, cfg>>
       [] e.ev \in {"probe", "cert"} /\ broken -> Same /\ UNCHANGED <<viol, cov>>
       [] e.ev = "probe" ->
            LET d == Decision(tbl, e.https, e.h, e.p)
                svc == d \notin {"404", "301", "503"}
                st == IF svc THEN ext[d].pstate ELSE "running"
                roll == svc /\ UsesRollout(ext, d, e.cookie)
                want == IF svc THEN (IF roll THEN tgtR[d] ELSE tgt[d]) ELSE ""
                good == IF d = "404" THEN e.status = 404
                        ELSE IF d = "301" THEN e.status = 301 /\ e.loc_ok
                        ELSE IF d = "503" THEN e.status = 503
                        ELSE IF st = "stopped" THEN e.status = 503 /\ e.msg = ext[d].msg /\ ~e.markup
                        ELSE IF st = "paused" THEN e.status = 0          \* held (the probe gives up after a moment)
                        ELSE e.status = 200 /\ e.origin = want
                tlsish == d \in {"301", "503"} \/ (svc /\ st = "running" /\ e.status \in {301, 503})
                inv == IF tlsish THEN "C16"
                       ELSE IF svc /\ st = "stopped" THEN "C08"
                       ELSE IF svc /\ st = "paused" THEN "C07_a"
                       ELSE IF svc /\ e.cookie # "" /\ ext[d].rollout THEN "C10"
                       ELSE "C04"
            IN /\ viol' = viol \cup If(~good, {V(inv, ToString(<<e.host, e.path, e.cookie>>), "",
                                                 <<"https", e.https, "got", e.status, e.origin, e.msg, "expected", d, want, st>>, e)})
               /\ cov' = Bump(IF ~svc /\ d = "404" THEN "C04_404" ELSE inv)
               /\ Same
       [] e.ev = "cert" ->
            LET want == Cert(tbl, e.h) # "none"
            IN /\ viol' = viol \cup If(e.ok # want, {V("C16_cert", e.sni, "", <<"certificate served", e.ok, "expected", want>>, e)})
               /\ cov' = Bump("C16_cert")
               /\ Same
       [] e.ev = "tg_probe" ->
            /\ viol' = viol \cup If(e.tg \in DOMAIN dead /\ e.t > dead[e.tg],
                                    {V("C06_b", e.tg, "", <<"rejected target still probed at", e.t, "command returned at", dead[e.tg]>>, e)})
            /\ cov' = IF e.tg \in DOMAIN dead THEN Bump("C06_b") ELSE cov
            /\ Same
       [] e.ev = "panic" ->
            /\ viol' = viol \cup {V("C18_panic", e.c, "", <<"panic", e.what>>, e)} /\ UNCHANGED cov /\ Same
       [] e.ev = "harness_error" ->
            /\ viol' = viol \cup {V("HARNESS", "", "", e.what, e)} /\ UNCHANGED cov /\ Same
       [] OTHER -> Same /\ UNCHANGED <<viol, cov>>
  /\ l' = l + 1
  /\ TLCSet(1, l)

Eof ==
  /\ l = Len(Log) + 1
  /\ JsonSerialize(IOEnv.VERIF_OUT, [lines |-> Len(Log), violations |-> viol, coverage |-> cov])
  /\ TLCSet(1, l)
  /\ l' = l + 1
  /\ Same /\ UNCHANGED <<viol, cov>>

Next == Step \/ Eof
Spec == Init /\ [][Next]_vars
Accepted == TLCGet(1) = Len(Log) + 1
===========================================================================
