SPECIFICATION Spec
CONSTANTS
  Cmds <- MCCmds2
  Cfgs <- MCCfgs
  Init0 = "k0"
  Atomic = TRUE
  Locked = FALSE
  MaxMut = 4
INVARIANTS
  S_Current
CHECK_DEADLOCK TRUE
