package harness

import (
	"context"
	"errors"
	"net"
	"sync"
	"syscall"
)

// MemNet is an in-memory network: listeners and dialers over net.Pipe, so that
// every hop of the proxy (client -> proxy, proxy -> target, probe -> target)
// runs inside a synctest bubble.
type MemNet struct {
	mu        sync.Mutex
	listeners map[string]*memListener
	// DialHook, if set, is consulted before every dial; a non-nil error
	// refuses the connection (kind is "probe", "req" or "client").
	DialHook func(kind, addr string) error
}

func NewMemNet() *MemNet {
	return &MemNet{listeners: map[string]*memListener{}}
}

type memAddr string

func (a memAddr) Network() string { return "mem" }
func (a memAddr) String() string  { return string(a) }

type memListener struct {
	net    *MemNet
	addr   string
	conns  chan net.Conn
	closed chan struct{}
	once   sync.Once
}

// norm strips a default ":80" so "t1" and "t1:80" name the same endpoint.
func norm(addr string) string {
	if len(addr) > 3 && addr[len(addr)-3:] == ":80" {
		return addr[:len(addr)-3]
	}
	return addr
}

func (n *MemNet) Listen(addr string) (net.Listener, error) {
	addr = norm(addr)
	n.mu.Lock()
	defer n.mu.Unlock()
	if _, ok := n.listeners[addr]; ok {
		return nil, errors.New("memnet: address in use: " + addr)
	}
	l := &memListener{net: n, addr: addr, conns: make(chan net.Conn), closed: make(chan struct{})}
	n.listeners[addr] = l
	return l, nil
}

func (l *memListener) Accept() (net.Conn, error) {
	select {
	case c := <-l.conns:
		return c, nil
	case <-l.closed:
		return nil, net.ErrClosed
	}
}

func (l *memListener) Close() error {
	l.once.Do(func() {
		close(l.closed)
		l.net.mu.Lock()
		if l.net.listeners[l.addr] == l {
			delete(l.net.listeners, l.addr)
		}
		l.net.mu.Unlock()
	})
	return nil
}

func (l *memListener) Addr() net.Addr { return memAddr(l.addr) }

var errRefused = &net.OpError{Op: "dial", Net: "mem", Err: syscall.ECONNREFUSED}

type addrConn struct {
	net.Conn
	local, remote net.Addr
}

func (c addrConn) LocalAddr() net.Addr  { return c.local }
func (c addrConn) RemoteAddr() net.Addr { return c.remote }

// Dialer returns a DialContext function tagged with a kind.
func (n *MemNet) Dialer(kind string) func(ctx context.Context, network, addr string) (net.Conn, error) {
	return func(ctx context.Context, network, addr string) (net.Conn, error) {
		addr = norm(addr)
		if err := ctx.Err(); err != nil {
			return nil, err // like a real dial: a context that is already cancelled fails with the context's error
		}
		if h := n.DialHook; h != nil {
			if err := h(kind, addr); err != nil {
				return nil, err
			}
		}
		n.mu.Lock()
		l := n.listeners[addr]
		n.mu.Unlock()
		if l == nil {
			return nil, errRefused
		}
		c1, c2 := net.Pipe()
		cli := addrConn{c1, &net.TCPAddr{IP: net.IPv4(10, 0, 0, 9), Port: 40000}, memAddr(addr)}
		srv := addrConn{c2, memAddr(addr), &net.TCPAddr{IP: net.IPv4(10, 0, 0, 9), Port: 40000}}
		select {
		case l.conns <- srv:
			return cli, nil
		case <-l.closed:
			return nil, errRefused
		case <-ctx.Done():
			return nil, ctx.Err()
		}
	}
}
