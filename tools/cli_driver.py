"""C20 driver: the built kamal-proxy binary in a scratch HOME / XDG_RUNTIME_DIR, real loopback sockets, real time.
Writes one ndjson line per decision-table row for spec/CliTrace.tla."""
import http.server, itertools, json, os, random, re, shutil, socket, subprocess, sys, threading, time

sys.path.insert(0, os.path.dirname(os.path.abspath(__file__)))
import vlib

ANSI = re.compile(r"\x1b\[[0-9;]*m")


def free_port():
    s = socket.socket()
    s.bind(("127.0.0.1", 0))
    p = s.getsockname()[1]
    s.close()
    return p


def listening(port, timeout=0.05):
    try:
        c = socket.create_connection(("127.0.0.1", port), timeout=timeout)
        c.close()
        return True
    except OSError:
        return False


class Target(http.server.BaseHTTPRequestHandler):
    def do_GET(self):
        self.send_response(200)
        self.send_header("Content-Length", "2")
        self.end_headers()
        self.wfile.write(b"ok")

    def log_message(self, *a):
        pass


def start_target():
    srv = http.server.ThreadingHTTPServer(("127.0.0.1", 0), Target)
    threading.Thread(target=srv.serve_forever, daemon=True).start()
    return srv, "127.0.0.1:%d" % srv.server_address[1]


class Proxy:
    def __init__(self, binary, base, args=(), env=None):
        self.dir = base
        os.makedirs(os.path.join(base, "home"), exist_ok=True)
        os.makedirs(os.path.join(base, "run"), exist_ok=True)
        self.env = {"PATH": os.environ["PATH"], "HOME": os.path.join(base, "home"), "XDG_RUNTIME_DIR": os.path.join(base, "run")}
        e = dict(self.env)
        e.update(env or {})
        self.out = open(os.path.join(base, "proxy.log"), "w")
        self.p = subprocess.Popen([binary, "run"] + list(args), env=e, stdout=self.out, stderr=subprocess.STDOUT)
        self.sock = os.path.join(base, "run", "kamal-proxy.sock")

    def wait_ready(self, t=5.0):
        t0 = time.time()
        while time.time() - t0 < t:
            if os.path.exists(self.sock) or self.p.poll() is not None:
                return os.path.exists(self.sock)
            time.sleep(0.01)
        return False

    def stop(self):
        self.p.terminate()
        try:
            self.p.wait(3)
        except subprocess.TimeoutExpired:
            self.p.kill()
        self.out.close()

    def log(self):
        return open(os.path.join(self.dir, "proxy.log")).read()

    def cli(self, binary, *args, timeout=20):
        p = subprocess.run([binary] + list(args), env=self.env, capture_output=True, text=True, timeout=timeout)
        return p.returncode, p.stdout, p.stderr


def run(binary, out_path, seed, tier, scratch, cert=None, key=None):
    rng = random.Random(seed)
    events = []
    emit = lambda ev, **kv: events.append(dict(kv, ev=ev))
    n = 0

    # ---- run options: flag / KAMAL_PROXY_<NAME> / <NAME> / default, malformed values ------------------------------
    sources = ["absent", "v1", "v2"]
    env_sources = sources + ["bad"]
    combos = list(itertools.product(sources, env_sources, env_sources))
    rng.shuffle(combos)
    if tier == "quick":
        combos = combos[:14] + [("absent", "bad", "v1"), ("absent", "bad", "absent"), ("absent", "absent", "bad"), ("absent", "empty", "v1")]
    else:
        combos = combos + [("absent", "empty", "v1"), ("absent", "empty", "absent")]
    for opt, flagname, envname, default in (("http-port", "--http-port", "HTTP_PORT", 80), ("https-port", "--https-port", "HTTPS_PORT", 443)):
        for flag, pre, bare in combos:
            n += 1
            v1, v2, other = free_port(), free_port(), free_port()
            val = {"v1": str(v1), "v2": str(v2), "bad": "eighty", "empty": ""}
            args, env = [], {}
            # the other port option gets an explicit free port so that only one of the two is under test
            args += ["--https-port" if opt == "http-port" else "--http-port", str(other)]
            if flag != "absent":
                args += [flagname, val[flag]]
            if pre != "absent":
                env["KAMAL_PROXY_" + envname] = val[pre]
            if bare != "absent":
                env[envname] = val[bare]
            px = Proxy(binary, os.path.join(scratch, "opt%d" % n), args, env)
            ready = px.wait_ready()
            observed = "none"
            if ready:
                time.sleep(0.05)
                if listening(v1):
                    observed = "v1"
                elif listening(v2):
                    observed = "v2"
                elif listening(default):
                    observed = "default"
            px.stop()
            if not ready:
                emit("harness_error", what="proxy did not start for option row %s %s %s %s: %s" % (opt, flag, pre, bare, px.log()[-300:]))
                continue
            # an empty value is "present but malformed" for an integer option
            emit("cli_opt", opt=opt, flag=flag, prefixed="bad" if pre == "empty" else pre, bare="bad" if bare == "empty" else bare, observed=observed)
    # --debug / DEBUG (boolean): observed through the presence of debug-level log lines after a command
    for flag, pre, bare in [("absent", "absent", "absent"), ("v1", "absent", "absent"), ("absent", "v1", "absent"), ("absent", "absent", "v1"),
                            ("absent", "bad", "v1"), ("absent", "bad", "absent"), ("absent", "absent", "bad")]:
        n += 1
        val = {"v1": "true", "v2": "false", "bad": "maybe"}
        args, env = ["--http-port", str(free_port()), "--https-port", str(free_port())], {}
        if flag != "absent":
            args += ["--debug=" + val[flag]]
        if pre != "absent":
            env["KAMAL_PROXY_DEBUG"] = val[pre]
        if bare != "absent":
            env["DEBUG"] = val[bare]
        px = Proxy(binary, os.path.join(scratch, "dbg%d" % n), args, env)
        if not px.wait_ready():
            px.stop()
            emit("harness_error", what="proxy did not start for debug row")
            continue
        px.cli(binary, "remove", "nothing")   # any command: it saves a state snapshot, which logs at debug level
        time.sleep(0.05)
        px.stop()
        dbg = '"level":"DEBUG"' in px.log()
        emit("cli_opt", opt="debug", flag=flag, prefixed=pre, bare=bare, observed="v1" if dbg else "default")

    # ---- deploy validation: refused before the proxy is contacted ---------------------------------------------------
    base = os.path.join(scratch, "val")
    os.makedirs(os.path.join(base, "run"), exist_ok=True)
    os.makedirs(os.path.join(base, "home"), exist_ok=True)
    sock_path = os.path.join(base, "run", "kamal-proxy.sock")
    sentinel = socket.socket(socket.AF_UNIX)
    sentinel.bind(sock_path)
    sentinel.listen(16)
    sentinel.settimeout(0.02)
    hits = [0]

    def accept_all():
        while True:
            try:
                c, _ = sentinel.accept()
                hits[0] += 1
                c.close()
            except socket.timeout:
                if stop_accept[0]:
                    return
            except OSError:
                return
    stop_accept = [False]
    th = threading.Thread(target=accept_all, daemon=True)
    th.start()
    env = {"PATH": os.environ["PATH"], "HOME": os.path.join(base, "home"), "XDG_RUNTIME_DIR": os.path.join(base, "run")}
    rows = list(itertools.product([False, True], repeat=7))
    rng.shuffle(rows)
    if tier == "quick":
        rows = rows[:40]
    for i, (tls, host, root, maxreq, bufreq, maxresp, bufresp) in enumerate(rows):
        args = ["deploy", "svc", "--target", "127.0.0.1:9"]
        if tls:
            args += ["--tls"]
        if host:
            args += ["--host", "v.example.com"]
        if not root:
            args += ["--path-prefix", "/api"]
        if maxreq:
            args += ["--max-request-body", "1000"]
        if bufreq:
            args += ["--buffer-requests"]
        if maxresp:
            args += ["--max-response-body", "1000"]
        if bufresp:
            args += ["--buffer-responses"]
        before = hits[0]
        p = subprocess.run([binary] + args, env=env, capture_output=True, text=True, timeout=20)
        time.sleep(0.03)
        emit("cli_deploy", id="v%d" % i, f=dict(tls=tls, host=host, rootPath=root, maxReq=maxreq, bufReq=bufreq, maxResp=maxresp, bufResp=bufresp),
             contacted=hits[0] > before, exit=p.returncode)
    stop_accept[0] = True
    sentinel.close()

    # ---- exit codes of the client commands and `list` ------------------------------------------------------------------
    srv, tgt = start_target()
    srv2, tgt2 = start_target()
    px = Proxy(binary, os.path.join(scratch, "cmds"), ["--http-port", str(free_port()), "--https-port", str(free_port())])
    if not px.wait_ready():
        emit("harness_error", what="proxy did not start for the command table: " + px.log()[-300:])
    else:
        expected = {}

        def do(idx, outcome, *args):
            rc, so, se = px.cli(binary, *args)
            emit("cli_exit", id="x%d" % idx, cmd=" ".join(args[:2]), outcome=outcome, exit=rc)

        def check_list(idx):
            rc, so, se = px.cli(binary, "list")
            rows = []
            for line in ANSI.sub("", so).splitlines()[1:]:
                cols = line.split()
                if len(cols) >= 6:
                    rows.append(cols[:6])
            exp = [[n] + expected[n] for n in sorted(expected)]
            emit("cli_list", id="l%d" % idx, rows=rows, expected=exp)

        dead = "127.0.0.1:%d" % free_port()
        k = 0
        steps = [
            ("ok", ["deploy", "web", "--target", tgt, "--host", "web.example.com", "--deploy-timeout", "3s"], ("web", ["web.example.com", "/", tgt, "running", "no"])),
            ("list", None, None),
            ("ok", ["deploy", "api", "--target", tgt2, "--host", "web.example.com", "--path-prefix", "/api", "--deploy-timeout", "3s"], ("api", ["web.example.com", "/api", tgt2, "running", "no"])),
            ("error", ["deploy", "other", "--target", tgt2, "--host", "web.example.com", "--deploy-timeout", "3s"], None),          # host conflict
            ("error", ["deploy", "sick", "--target", dead, "--host", "sick.example.com", "--deploy-timeout", "300ms"], None),       # never healthy
            ("error", ["deploy", "bad", "--target", "not a target", "--host", "bad.example.com"], None),                            # malformed target
            ("list", None, None),
            ("ok", ["pause", "web", "--drain-timeout", "1s"], ("web", ["web.example.com", "/", tgt, "paused", "no"])),
            ("list", None, None),
            ("ok", ["stop", "web", "--drain-timeout", "1s", "--message", "back soon"], ("web", ["web.example.com", "/", tgt, "stopped", "no"])),
            ("ok", ["resume", "web"], ("web", ["web.example.com", "/", tgt, "running", "no"])),
            ("error", ["pause", "ghost"], None),
            ("error", ["stop", "ghost"], None),
            ("error", ["resume", "ghost"], None),
            ("error", ["remove", "ghost"], None),
            ("error", ["rollout", "set", "web", "--percent", "10"], None),                                                          # no rollout targets yet
            ("ok", ["rollout", "deploy", "web", "--target", tgt2, "--deploy-timeout", "3s"], None),
            ("ok", ["rollout", "set", "web", "--percent", "10"], None),
            ("ok", ["rollout", "stop", "web"], None),
            ("error", ["rollout", "deploy", "ghost", "--target", tgt2], None),
            ("error", ["rollout", "set", "ghost", "--percent", "10"], None),
            ("error", ["rollout", "stop", "ghost"], None),
            ("list", None, None),
            ("ok", ["remove", "api"], ("api", None)),
            ("list", None, None),
            ("ok", ["deploy", "multi", "--target", tgt + "," + tgt2, "--host", "a.example.com,b.example.com", "--path-prefix", "/x,/y", "--deploy-timeout", "3s"],
             ("multi", ["a.example.com,b.example.com", "/x,/y", tgt + "," + tgt2, "running", "no"])),
            ("ok", ["deploy", "dflt", "--target", tgt, "--path-prefix", "/d", "--deploy-timeout", "3s"], ("dflt", ["*", "/d", tgt, "running", "no"])),
            ("list", None, None),
        ]
        if cert:
            # a TLS service on the root path and a service on a sub-path of the same host (it follows the root's TLS setting)
            steps += [
                ("ok", ["deploy", "sec", "--target", tgt, "--host", "sec.example.com", "--tls", "--tls-certificate-path", cert, "--tls-private-key-path", key,
                        "--deploy-timeout", "3s"], ("sec", ["sec.example.com", "/", tgt, "running", "yes"])),
                ("ok", ["deploy", "secapi", "--target", tgt2, "--host", "sec.example.com", "--path-prefix", "/api", "--deploy-timeout", "3s"],
                 ("secapi", ["sec.example.com", "/api", tgt2, "running", "yes"])),
                ("list", None, None),
            ]
        for outcome, args, upd in steps:
            k += 1
            if outcome == "list":
                check_list(k)
                continue
            do(k, outcome, *args)
            if upd and outcome == "ok":
                name, row = upd
                if row is None:
                    expected.pop(name, None)
                else:
                    expected[name] = row
        px.stop()
    srv.shutdown()
    srv2.shutdown()
    with open(out_path, "w") as f:
        for e in events:
            f.write(json.dumps(e, sort_keys=True) + "\n")
    return len(events)


def build_binary(scratch):
    out = os.path.join(scratch, "kamal-proxy")
    p = subprocess.run(["go1.26", "build", "-o", out, "./cmd/kamal-proxy"], cwd=vlib.REPO, env=vlib.GOENV, capture_output=True, text=True)
    if p.returncode != 0:
        raise vlib.Inconclusive("building the kamal-proxy binary failed:\n" + p.stdout + p.stderr)
    return out
