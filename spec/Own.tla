--------------------------------- MODULE Own ---------------------------------
(***************************************************************************)
(* Design model of the router's service table under concurrent commands    *)
(* (router.go DeployService / deployTargetsIntoService / installService /  *)
(* RemoveService, service_map.go CheckAvailability), for C05, C06 and the  *)
(* probe part of C17.                                                      *)
(*                                                                         *)
(* Several deploys and removes, for the same or different services, run at *)
(* the same time.  A deploy: copies the installed service (remembering its *)
(* load balancer), starts probing its new targets, waits, and then - under *)
(* the router's write lock - checks that none of its host/path pairs is    *)
(* owned by a different service and puts itself into the table; then it    *)
(* drains and disposes the load balancer it replaced.  A deploy refused at *)
(* that point disposes its own new load balancer (repair F2).              *)
(*                                                                         *)
(* Variants (negative controls):                                           *)
(*   AtomicInstall = FALSE     availability is checked and the table       *)
(*                             written in two separate critical sections   *)
(*   DisposeOnConflict = FALSE the code before repair F2                   *)
(*   CheckOnRollout = FALSE    rollout deploys skip the availability check *)
(*                                                                         *)
(* A service object is identified by the deploy that created it (its       *)
(* active load balancer carries the same id).  A rollout deploy works on   *)
(* the installed object itself: it puts a new load balancer into the       *)
(* object's rollout slot and installs the SAME object again - also when    *)
(* the service was removed or replaced while it waited.                    *)
(***************************************************************************)
EXTENDS Integers, FiniteSets, TLC

CONSTANTS Cmds,      \* command ids
          Kind,      \* Kind[c] \in {"deploy", "rdeploy", "remove"}   (rdeploy = rollout deploy)
          Name,      \* Name[c]: service name
          Bind,      \* Bind[c]: set of host/path pairs a deploy claims
          MayFail,   \* may new targets fail to become healthy?
          AtomicInstall, DisposeOnConflict,
          CheckOnRollout   \* variant: FALSE = a rollout deploy installs without the availability check

Names == {Name[c] : c \in Cmds}
None == "-"          \* no load balancer / service absent

VARIABLES tbl,       \* tbl[n]: load balancer (= id of the deploy that created it) of the installed service n, or None
          own,       \* own[n]: host/path pairs of the installed service n
          pc,        \* pc[c]: new, wait, healthy, updated, checked, conflict, installed, ret, done
          base,      \* base[c]: load balancer the copy made by c shares, i.e. what c will replace
          probing,   \* load balancers whose targets are being probed
          res,       \* res[c]
          race,      \* race[c]: another command for the same service was in progress while c was (known finding)
          obj,       \* obj[c]: the service object command c works on
          rb         \* rb[d]: load balancer in the rollout slot of service object d, or None
vars == <<tbl, own, pc, base, probing, res, race, obj, rb>>

InProg(c) == pc[c] \notin {"new", "done"}

Init == /\ tbl = [n \in Names |-> None] /\ own = [n \in Names |-> {}]
        /\ pc = [c \in Cmds |-> "new"] /\ base = [c \in Cmds |-> None]
        /\ probing = {} /\ res = [c \in Cmds |-> ""] /\ race = [c \in Cmds |-> FALSE]
        /\ obj = [c \in Cmds |-> None] /\ rb = [c \in Cmds |-> None]

Racing(c) == {d \in Cmds \ {c} : InProg(d) /\ Name[d] = Name[c]}
MarkRace(c) == [d \in Cmds |-> race[d] \/ (d = c /\ Racing(c) # {}) \/ (d \in Racing(c))]

Call(c) ==                                      \* findOrCreateService + NewLoadBalancer (probes start); hook dep_started
  /\ pc[c] = "new" /\ Kind[c] = "deploy"
  /\ base' = [base EXCEPT ![c] = tbl[Name[c]]]
  /\ obj' = [obj EXCEPT ![c] = c]
  /\ rb' = [rb EXCEPT ![c] = IF tbl[Name[c]] = None THEN None ELSE rb[tbl[Name[c]]]]     \* the copy shares the rollout slot
  /\ probing' = probing \cup {c}
  /\ pc' = [pc EXCEPT ![c] = "wait"]
  /\ race' = MarkRace(c)
  /\ UNCHANGED <<tbl, own, res>>

RdCall(c) ==                                    \* SetRolloutTargets: serviceForName, NewLoadBalancer
  /\ pc[c] = "new" /\ Kind[c] = "rdeploy"
  /\ IF tbl[Name[c]] = None
     THEN /\ res' = [res EXCEPT ![c] = "not_found"] /\ pc' = [pc EXCEPT ![c] = "ret"]
          /\ UNCHANGED <<obj, probing>>
     ELSE /\ obj' = [obj EXCEPT ![c] = tbl[Name[c]]]
          /\ probing' = probing \cup {c}
          /\ pc' = [pc EXCEPT ![c] = "wait"]
          /\ UNCHANGED res
  /\ race' = MarkRace(c)
  /\ UNCHANGED <<tbl, own, base, rb>>

WaitOk(c) == /\ pc[c] = "wait"                  \* hook dep_healthy
             /\ pc' = [pc EXCEPT ![c] = "healthy"]
             /\ UNCHANGED <<tbl, own, base, probing, res, race, obj, rb>>

WaitFail(c) == /\ pc[c] = "wait" /\ MayFail     \* deploy timeout; lb.Dispose
               /\ probing' = probing \ {c}
               /\ res' = [res EXCEPT ![c] = "unhealthy"]
               /\ pc' = [pc EXCEPT ![c] = "ret"]
               /\ UNCHANGED <<tbl, own, base, race, obj, rb>>

UpdateSlot(c) ==                                \* UpdateLoadBalancer under the service's lock; hook dep_pre_install
  /\ pc[c] = "healthy"
  /\ IF Kind[c] = "rdeploy"
     THEN /\ base' = [base EXCEPT ![c] = rb[obj[c]]]          \* the rollout load balancer it replaces
          /\ rb' = [rb EXCEPT ![obj[c]] = c]
     ELSE UNCHANGED <<base, rb>>                              \* a deploy replaces the active one (base, set at the copy)
  /\ pc' = [pc EXCEPT ![c] = "updated"]
  /\ UNCHANGED <<tbl, own, probing, res, race, obj>>

BindOf(c) == Bind[obj[c]]                       \* a rollout deploy re-installs the object with the bindings it has
Conflict(c) == \E n \in Names \ {Name[c]} : tbl[n] # None /\ own[n] \cap BindOf(c) # {}
Checks(c) == Kind[c] = "deploy" \/ CheckOnRollout

Install(c) ==                                   \* installService under the router's write lock
  /\ pc[c] = "updated" /\ AtomicInstall
  /\ IF Checks(c) /\ Conflict(c)
     THEN /\ res' = [res EXCEPT ![c] = "host_in_use"]
          /\ pc' = [pc EXCEPT ![c] = "conflict"]
          /\ UNCHANGED <<tbl, own>>
     ELSE /\ tbl' = [tbl EXCEPT ![Name[c]] = obj[c]]
          /\ own' = [own EXCEPT ![Name[c]] = BindOf(c)]
          /\ pc' = [pc EXCEPT ![c] = "installed"]
          /\ UNCHANGED res
  /\ UNCHANGED <<base, probing, race, obj, rb>>

Check(c) ==                                     \* variant: availability checked in a critical section of its own
  /\ pc[c] = "updated" /\ ~AtomicInstall
  /\ IF Checks(c) /\ Conflict(c)
     THEN res' = [res EXCEPT ![c] = "host_in_use"] /\ pc' = [pc EXCEPT ![c] = "conflict"]
     ELSE pc' = [pc EXCEPT ![c] = "checked"] /\ UNCHANGED res
  /\ UNCHANGED <<tbl, own, base, probing, race, obj, rb>>

Set(c) == /\ pc[c] = "checked"
          /\ tbl' = [tbl EXCEPT ![Name[c]] = obj[c]]
          /\ own' = [own EXCEPT ![Name[c]] = BindOf(c)]
          /\ pc' = [pc EXCEPT ![c] = "installed"]
          /\ UNCHANGED <<base, probing, res, race, obj, rb>>

ConflictDispose(c) ==                           \* the refused deploy stops probing its new targets
  /\ pc[c] = "conflict"
  /\ probing' = IF DisposeOnConflict THEN probing \ {c} ELSE probing
  /\ pc' = [pc EXCEPT ![c] = "ret"]
  /\ UNCHANGED <<tbl, own, base, res, race, obj, rb>>

DrainDispose(c) ==                              \* replaced.DrainAll; replaced.Dispose
  /\ pc[c] = "installed"
  /\ probing' = probing \ {base[c]}
  /\ res' = [res EXCEPT ![c] = "ok"]
  /\ pc' = [pc EXCEPT ![c] = "ret"]
  /\ UNCHANGED <<tbl, own, base, race, obj, rb>>

Remove(c) ==                                    \* RemoveService: under the router's write lock the service is disposed
  /\ pc[c] = "new" /\ Kind[c] = "remove"         \* (probe loops of both slots closed, no drain) and deleted from the table
  /\ IF tbl[Name[c]] = None
     THEN /\ res' = [res EXCEPT ![c] = "not_found"]
          /\ UNCHANGED <<tbl, own, base, probing>>
     ELSE /\ base' = [base EXCEPT ![c] = tbl[Name[c]]]
          /\ probing' = probing \ {tbl[Name[c]], rb[tbl[Name[c]]]}
          /\ tbl' = [tbl EXCEPT ![Name[c]] = None]
          /\ own' = [own EXCEPT ![Name[c]] = {}]
          /\ res' = [res EXCEPT ![c] = "ok"]
  /\ pc' = [pc EXCEPT ![c] = "ret"]
  /\ race' = MarkRace(c)
  /\ UNCHANGED <<obj, rb>>

Return(c) == /\ pc[c] = "ret"
             /\ pc' = [pc EXCEPT ![c] = "done"]
             /\ UNCHANGED <<tbl, own, base, probing, res, race, obj, rb>>

Finished == (\A c \in Cmds : pc[c] = "done") /\ UNCHANGED vars

Next == \/ \E c \in Cmds : Call(c) \/ RdCall(c) \/ WaitOk(c) \/ WaitFail(c) \/ UpdateSlot(c) \/ Install(c) \/ Check(c) \/ Set(c) \/ ConflictDispose(c)
                           \/ DrainDispose(c) \/ Remove(c) \/ Return(c)
        \/ Finished
Spec == Init /\ [][Next]_vars

\* C05: no two installed services own the same pair
O_Ownership == \A n, m \in Names : (n # m /\ tbl[n] # None /\ tbl[m] # None) => own[n] \cap own[m] = {}
\* C06 / C17: a command that has failed leaves no probe loop behind
O_FailedLeavesNothing == \A c \in Cmds : (pc[c] = "done" /\ res[c] \notin {"ok", "not_found"}) => c \notin probing
\* C17: once everything has returned only installed load balancers are probed
\* (commands that raced another command for the same service are the known finding KF-same-service-race)
O_NoLeak == (\A c \in Cmds : ~InProg(c)) =>
              \A l \in probing : (\E n \in Names : tbl[n] # None /\ (tbl[n] = l \/ rb[tbl[n]] = l)) \/ race[l]
\* C05: a refusal is justified
A_RefusalJustified == [][\A c \in Cmds : (res[c] = "" /\ res'[c] = "host_in_use") => Conflict(c)]_vars
\* C06: a step that makes a command fail changes no table entry
A_FailChangesNothing == [][(\E c \in Cmds : res[c] = "" /\ res'[c] \notin {"", "ok"}) => (tbl' = tbl /\ own' = own)]_vars
\* C05: of deploys racing for the same pair one wins (no deploy is refused because of a service that is not installed in the end,
\* unless that service was removed or replaced meanwhile)
O_SomeoneWins == (\A c \in Cmds : pc[c] = "done") =>
                   \A c \in Cmds : res[c] = "host_in_use" =>
                     \E d \in Cmds \ {c} : Kind[d] = "deploy" /\ Name[d] # Name[c] /\ Bind[d] \cap BindOf(c) # {} /\ res[d] = "ok"
=============================================================================
