------------------------------ MODULE OwnProof ------------------------------
(***************************************************************************)
(* TLAPS proof that ownership (C05) is an inductive invariant of Own!Spec  *)
(* for EVERY set of commands, service names and host/path bindings - the   *)
(* unbounded counterpart of the TLC runs on MC_Own.  The only assumption   *)
(* is the one the code satisfies: availability check and table write are   *)
(* one critical section (AtomicInstall).                                   *)
(***************************************************************************)
EXTENDS Own, TLAPS

ASSUME Atomic == AtomicInstall = TRUE /\ CheckOnRollout = TRUE

\* with an atomic install nobody is ever between check and set
TypeInv == /\ pc \in [Cmds -> STRING]
           /\ tbl \in [Names -> Cmds \cup {None}]
           /\ own \in [Names -> SUBSET (UNION {Bind[c] : c \in Cmds})]
           /\ obj \in [Cmds -> Cmds \cup {None}]
           /\ \A c \in Cmds : pc[c] \in {"updated", "healthy", "wait"} => obj[c] \in Cmds

Inv == /\ TypeInv
       /\ O_Ownership
       /\ \A c \in Cmds : pc[c] # "checked"

THEOREM InitInv == Init => Inv
  BY DEF Init, Inv, TypeInv, O_Ownership, Names, None

THEOREM StepInv == Inv /\ [Next]_vars => Inv'
<1> SUFFICES ASSUME Inv, [Next]_vars PROVE Inv'
  OBVIOUS
<1> USE DEF Inv, TypeInv, O_Ownership, Names
<1>1. CASE UNCHANGED vars
  BY <1>1 DEF vars
<1>2. ASSUME NEW c \in Cmds, Call(c) PROVE Inv'
  BY <1>2 DEF Call
<1>2a. ASSUME NEW c \in Cmds, RdCall(c) PROVE Inv'
  BY <1>2a DEF RdCall, None
<1>2b. ASSUME NEW c \in Cmds, UpdateSlot(c) PROVE Inv'
  BY <1>2b DEF UpdateSlot
<1>3. ASSUME NEW c \in Cmds, WaitOk(c) PROVE Inv'
  BY <1>3 DEF WaitOk
<1>4. ASSUME NEW c \in Cmds, WaitFail(c) PROVE Inv'
  BY <1>4 DEF WaitFail
<1>5. ASSUME NEW c \in Cmds, Install(c) PROVE Inv'
  BY <1>5, Atomic DEF Install, Conflict, Checks, BindOf, None
<1>6. ASSUME NEW c \in Cmds, Check(c) PROVE Inv'
  BY <1>6, Atomic DEF Check
<1>7. ASSUME NEW c \in Cmds, Set(c) PROVE Inv'
  BY <1>7 DEF Set
<1>8. ASSUME NEW c \in Cmds, ConflictDispose(c) PROVE Inv'
  BY <1>8 DEF ConflictDispose
<1>9. ASSUME NEW c \in Cmds, DrainDispose(c) PROVE Inv'
  BY <1>9 DEF DrainDispose
<1>10. ASSUME NEW c \in Cmds, Remove(c) PROVE Inv'
  BY <1>10 DEF Remove, None
<1>11. ASSUME NEW c \in Cmds, Return(c) PROVE Inv'
  BY <1>11 DEF Return
<1>12. CASE Finished
  BY <1>12 DEF Finished, vars
<1> QED
  BY <1>1, <1>2, <1>2a, <1>2b, <1>3, <1>4, <1>5, <1>6, <1>7, <1>8, <1>9, <1>10, <1>11, <1>12 DEF Next

THEOREM Safety == Spec => []O_Ownership
<1>1. Inv => O_Ownership
  BY DEF Inv
<1> QED
  BY InitInv, StepInv, <1>1, PTL DEF Spec
=============================================================================
