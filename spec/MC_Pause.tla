----------------------------- MODULE MC_Pause -----------------------------
EXTENDS Proxy
CONSTANTS t1, t2, r1, r2, r3
\* command histories of the pause family (one cfg each)
CmdsA == <<"deploy", "pause", "resume">>
GrpA  == <<{t1}, {}, {}>>
CmdsB == <<"deploy", "pause", "stop", "resume">>
GrpB  == <<{t1}, {}, {}, {}>>
CmdsC == <<"deploy", "stop", "resume", "pause">>
GrpC  == <<{t1}, {}, {}, {}>>
CmdsD == <<"deploy", "pause", "deploy", "resume">>
GrpD  == <<{t1}, {}, {t2}, {}>>
CmdsE == <<"deploy", "pause", "pause", "resume">>
GrpE  == <<{t1}, {}, {}, {}>>
CmdsF == <<"deploy", "stop", "deploy", "resume">>
GrpF  == <<{t1}, {}, {t2}, {}>>
Sym2 == Permutations({r1, r2})
Sym3 == Permutations({r1, r2, r3})
===========================================================================
