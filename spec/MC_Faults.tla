----------------------------- MODULE MC_Faults -----------------------------
(* every fault point x stall class x page set, and sequences of faults on one service: the residue after a     *)
(* fault is always "nothing in flight"                                                                        *)
EXTENDS Faults, Sequences
CONSTANTS Timeout, MaxSeq
FaultKinds == Early \cup Late \cup {"silence", "ok"}
Stalls == {0, Timeout - 1, Timeout, Timeout + 1}
VARIABLES hist, inflight
Init == hist = <<>> /\ inflight = 0
Next == /\ Len(hist) < MaxSeq
        /\ \E f \in FaultKinds, s \in Stalls :
             /\ hist' = Append(hist, <<f, s, Expected(f, s, Timeout)>>)
             /\ inflight' = 0          \* a failed request leaves nothing behind
Spec == Init /\ [][Next]_<<hist, inflight>>
Inv_WellFormed == \A i \in 1..Len(hist) : hist[i][3].status \in {200, 502, 504}
Inv_EarlyNeverCut == \A i \in 1..Len(hist) : hist[i][1] \in Early => ~hist[i][3].cut /\ hist[i][3].status = 502
Inv_LateAlwaysCut == \A i \in 1..Len(hist) : hist[i][1] \in Late => hist[i][3].cut
Inv_NoResidue == inflight = 0
=============================================================================
