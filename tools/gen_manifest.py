#!/usr/bin/env python3
"""Writes MANIFEST.json from the table below (single place to keep it consistent)."""
import json, os
VERIF = os.path.dirname(os.path.dirname(os.path.abspath(__file__)))

TRUST = ("TLC/SANY; Go testing/synctest virtual clock and net.Pipe in-memory network as substrate; the harness's recorder "
         "and fake targets; the reading of the property into the named invariants of spec/Obs.tla. Verdicts come only "
         "from traces of the real code judged by TLC against the observable-level invariants.")

CHECKS = {
 "C01": ("Executor runs the real proxy (router->service->load balancer->ReverseProxy) under a controlled scheduler and virtual clock over generated deploy histories (group sizes, per-target probe outcome sequences, deadline placement, requests at any step); TLC validates every recorded trace against spec/ObsTrace.tla, invariants C01_a (no request reaches a target before every member of its group replied 2xx to a probe), C01_b (ok only if all replied 2xx within the deploy timeout), C01_c (targets of a failed deploy never receive a request).", "6 C01"),
 "C02": ("Same executor; invariant C02: a request for a running service whose groups are steadily healthy and that finishes within the drain timeout is answered 200, unmodified, by a target of the group current at send or of a deploy overlapping its life, never by a proxy error page. Interleavings of request steps with deploy/probe steps are chosen by a PCT/random controller at the yield hooks.", "6 C02"),
 "C03": ("Same executor with long-running, never-finishing and upgraded requests; invariants C03_a (nothing still served by a drained target once the clock moves past the command's return), C03_b (no request begins on a drained target after the return), C03_c (in-flight requests complete normally up to the drain deadline, are cut off with 504 exactly at it, upgraded connections closed when draining begins).", "6 C03"),
 "C17": ("Same executor under the urgency rule (clock advances only when no internal step is pending); invariants C17_a (return within the timeouts), C17_b (return no later than the moment the command's condition was met, computed from observables), C17_c (no probe reaches a removed, replaced or rejected target after the command returned).", "6 C17"),
}

def main():
    checks = []
    for pid, (text, ref) in sorted(CHECKS.items()):
        checks.append({
            "property_id": pid,
            "quick_cmd": "python3 tools/check.py %s --tier quick" % pid,
            "thorough_cmd": "python3 tools/check.py %s --tier thorough" % pid,
            "evidence_file": "evidence/%s.json" % pid,
            "replay_cmd_template": "python3 tools/check.py %s --replay {path}" % pid,
            "engine": "tla-conformance",
            "level_claimed": {"category": "model_checking", "text": text, "design_ref": "DESIGN.md section " + ref},
            "level_note": TRUST,
            "technique": "explicit TLA+ specification checked with TLC; trace validation of executions of the real code against the specification (model-based conformance)",
        })
    claimed = set(CHECKS)
    na = []
    for i in range(1, 21):
        pid = "C%02d" % i
        if pid not in claimed:
            na.append({"property_id": pid, "reason": "not yet covered by a registered check at this commit (work in progress; see DESIGN.md section 6 for the planned specification and binding)"})
    m = {
        "version": 1,
        "setup_cmd": "python3 tools/setup.py",
        "hooks": {
            "guard": "verif",
            "enable": "go1.26 test -c -tags verif (GOFLAGS=-mod=mod GOTOOLCHAIN=local) from the harness module, which replaces github.com/basecamp/kamal-proxy with /repo",
            "baseline_off_cmd": "cd /repo && go test -mod=mod -vet=off -count=1 ./...",
            "source_commits": ["ad03823"],
            "add_only": True,
        },
        "engines": [{"name": "tla-conformance", "path": "tools/check.py", "serves_properties": sorted(claimed),
                     "kind_free_text": "TLA+ specs in spec/ (observable layer Obs.tla, trace spec ObsTrace.tla, design model Proxy.tla), TLC for model checking and trace validation, Go executor in harness/ running the real proxy inside a synctest bubble"}],
        "checks": checks,
        "not_applicable": na,
        "notes": "exit 2 = inconclusive (never a violation). KNOWN_FINDINGS.txt lists recorded defects and repairs.",
    }
    json.dump(m, open(os.path.join(VERIF, "MANIFEST.json"), "w"), indent=1)

main()
