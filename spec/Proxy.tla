------------------------------- MODULE Proxy -------------------------------
(***************************************************************************)
(* Design layer (D): one service of kamal-proxy, shaped like the           *)
(* implementation.  One action per critical section / yield hook of the    *)
(* code (the hook name is given with each action); the environment         *)
(* (operator, clients, targets, timers) is a set of separate               *)
(* nondeterministic actions.                                               *)
(*                                                                         *)
(*   router.go     deployTargetsIntoService, installService, Pause/Stop/.. *)
(*   service.go    CopyWithOptions, UpdateLoadBalancer, serviceRequest..   *)
(*   load_balancer.go  claimTarget, updateHealthyTargets, DrainAll         *)
(*   target.go     HealthCheckCompleted, StartRequest, Drain               *)
(*   pause_controller.go  Pause, setState, Wait                            *)
(*   health_check.go  run / check                                          *)
(*                                                                         *)
(* Commands: deploy, rdeploy (rollout deploy), rset / rstop (rollout split *)
(* set / stopped), pause, stop, resume, remove - issued one after the      *)
(* other (racing commands are the business of Own.tla and Snap.tla).       *)
(*                                                                         *)
(* Identities: command k (1..NCmds) that is a deploy creates load balancer *)
(* k, service version k and the targets Group[k]; a rollout deploy creates *)
(* load balancer k and puts it into the rollout slot of the installed      *)
(* version.  Version 0 / load balancer 0 = none.  remove ends an           *)
(* incarnation of the service: a later deploy starts a new one with a      *)
(* pause controller of its own.                                            *)
(*                                                                         *)
(* Bound to the code in both directions: TLC behaviours of this module are *)
(* replayed into the proxy as schedules (tools/schedules.py), and the hook *)
(* events of real runs are accepted as behaviours of it (ProxyTrace.tla).  *)
(*                                                                         *)
(* This is the untimed reading: every timer (deploy timeout, drain         *)
(* deadline, max-pause, probe tick) may fire at any moment after it was    *)
(* armed - an over-approximation, sound for the safety properties.         *)
(***************************************************************************)
EXTENDS Integers, Sequences, FiniteSets, TLC

CONSTANTS
  Cmds,        \* sequence of command kinds: "deploy" | "rdeploy" | "rset" | "rstop" | "pause" | "stop" | "resume" | "remove"
  Group,       \* Group[k] = set of targets introduced by command k ({} if not a deploy)
  Reqs,        \* client requests
  Kinds,       \* request kinds that clients may choose: subset of {"plain","slow","forever","upgrade","slowupgrade"}
               \*   plain: ends by itself, always within any drain timeout (the proviso of C02/C03)
               \*   slow: ends by itself or is cut, whichever comes first;  forever: never ends by itself
               \*   upgrade: hijacked connection that never ends by itself;  slowupgrade: one that may
  MaxProbes,   \* probes per target
  AllowBad,    \* may targets answer probes with a failure?
  SignalAfterNotify,  \* variant: becameHealthy is closed after the rotation update (repair F1)
  NoTarget

NCmds    == Len(Cmds)
CmdIds   == 1..NCmds
Targets  == UNION {Group[k] : k \in CmdIds}
GroupOf(t) == CHOOSE k \in CmdIds : t \in Group[k]

VARIABLES
  table,     \* installed service version (0 = service absent)          ServiceMap
  verLb,     \* verLb[v] = active load balancer of version v            Service.active
  verRb,     \* verRb[v] = rollout load balancer of version v (0 = none) Service.rollout
  split,     \* split[v] = a rollout split is set on version v          Service.rolloutController # nil
  ts,        \* target state                                            Target.state
  saved,     \* state a drain will restore                              Drain: originalState
  rot,       \* rot[l] = rotation of load balancer l                    LoadBalancer.healthy
  became,    \* becameHealthy closed                                    Target.becameHealthy
  hcOn,      \* probe loop running                                      HealthCheck ctx
  hc,        \* probe loop position
  nprobe,    \* probes sent so far
  inflight,  \* inflight[t] = requests registered at t                  Target.inflight
  dr,        \* drain goroutine position per target
  snap,      \* requests a drain is waiting for
  pstate,    \* pause controller state                                  PauseController.State
  pgen,      \* identity of the release channel                         PauseController.pauseChannel
  inc,       \* incarnation of the service (and of its pause controller): remove + deploy makes a new one
  pold,      \* pold[i] = [st, gen]: how the pause controller of the removed incarnation i was left
  cm,        \* the command in progress
  next,      \* index of the next command
  res,       \* res[k] = result of command k ("" while not returned)
  rq,        \* client requests
  \* history (observable) variables used by the invariants
  okEver,    \* target has answered a probe 2xx
  retired    \* target belongs to a group whose replacing deploy has returned

vars == <<table, verLb, verRb, split, ts, saved, rot, became, hcOn, hc, nprobe, inflight, dr, snap,
          pstate, pgen, inc, pold, cm, next, res, rq, okEver, retired>>

Idle == [k |-> 0, pc |-> "idle", repl |-> 0, pend |-> {}, slot |-> "", ver |-> 0]

NewReq == [pc |-> "new", kind |-> "plain", ver |-> 0, lb |-> 0, tgt |-> NoTarget, status |-> 0,
           gen |-> 0, ginc |-> 0, rinc |-> 0, dep |-> FALSE, allowed |-> {}, stale |-> FALSE, gateclaim |-> FALSE,
           lateBeg |-> FALSE, pAtSend |-> "running", disturbed |-> FALSE, resumed |-> FALSE, heldIn |-> 0, claimTs |-> "", claimHc |-> "",
           roll |-> FALSE, nosplit |-> FALSE]

Init ==
  /\ table = 0
  /\ verLb = [v \in 0..NCmds |-> 0]
  /\ verRb = [v \in 0..NCmds |-> 0]
  /\ split = [v \in 0..NCmds |-> FALSE]
  /\ ts = [t \in Targets |-> "adding"]
  /\ saved = [t \in Targets |-> "adding"]
  /\ rot = [l \in 0..NCmds |-> {}]
  /\ became = [t \in Targets |-> FALSE]
  /\ hcOn = [t \in Targets |-> FALSE]
  /\ hc = [t \in Targets |-> "off"]
  /\ nprobe = [t \in Targets |-> 0]
  /\ inflight = [t \in Targets |-> {}]
  /\ dr = [t \in Targets |-> "none"]
  /\ snap = [t \in Targets |-> {}]
  /\ pstate = "running"
  /\ pgen = 0
  /\ inc = 0
  /\ pold = [i \in 0..NCmds |-> [st |-> "running", gen |-> 0]]
  /\ cm = Idle
  /\ next = 1
  /\ res = [k \in CmdIds |-> ""]
  /\ rq = [r \in Reqs |-> NewReq]
  /\ okEver = [t \in Targets |-> FALSE]
  /\ retired = [t \in Targets |-> FALSE]

(***************************************************************************)
(* Probe loop of target t (health_check.go run/check, target.go            *)
(* HealthCheckCompleted).                                                  *)
(***************************************************************************)
HcSend(t) ==                                   \* ticker / first probe
  /\ hcOn[t] /\ hc[t] = "idle" /\ nprobe[t] < MaxProbes
  /\ hc' = [hc EXCEPT ![t] = "sent"]
  /\ nprobe' = [nprobe EXCEPT ![t] = @ + 1]
  /\ UNCHANGED <<table, verLb, verRb, split, ts, saved, rot, became, hcOn, inflight, dr, snap, pstate, pgen, inc, pold, cm, next, res, rq, okEver, retired>>

TgProbeReply(t, good) ==                       \* environment: the probe completes (reply, error, or probe timeout) and is reported;
  /\ hc[t] = "sent"                            \* a reply that raced a Close() is still reported (check() only drops context.Canceled)
  /\ good \/ AllowBad
  /\ hc' = [hc EXCEPT ![t] = IF good THEN "ok" ELSE "bad"]
  /\ okEver' = [okEver EXCEPT ![t] = @ \/ good]
  /\ UNCHANGED <<table, verLb, verRb, split, ts, saved, rot, became, hcOn, nprobe, inflight, dr, snap, pstate, pgen, inc, pold, cm, next, res, rq, retired>>

TgProbeDropped(t) ==                           \* the loop's context was cancelled while the probe was out: no report
  /\ hc[t] = "sent" /\ ~hcOn[t]
  /\ hc' = [hc EXCEPT ![t] = "off"]
  /\ UNCHANGED <<table, verLb, verRb, split, ts, saved, rot, became, hcOn, nprobe, inflight, dr, snap, pstate, pgen, inc, pold, cm, next, res, rq, okEver, retired>>

HcApply(t) ==                                  \* hook hc_result; locked section of HealthCheckCompleted
  /\ hc[t] \in {"ok", "bad"}
  /\ LET good  == hc[t] = "ok"
         first == good /\ ts[t] = "adding"
         ns    == IF good THEN "healthy"
                  ELSE IF ts[t] = "healthy" THEN "unhealthy" ELSE ts[t]
     IN /\ ts' = [ts EXCEPT ![t] = ns]
        /\ became' = [became EXCEPT ![t] = @ \/ (first /\ ~SignalAfterNotify)]
        /\ hc' = [hc EXCEPT ![t] = IF ns # ts[t] THEN (IF first THEN "applied_first" ELSE "applied") ELSE "noted"]
  /\ UNCHANGED <<table, verLb, verRb, split, saved, rot, hcOn, nprobe, inflight, dr, snap, pstate, pgen, inc, pold, cm, next, res, rq, okEver, retired>>

HcNotify(t) ==                                 \* hook hc_applied; TargetStateChanged -> updateHealthyTargets (LB lock)
  /\ hc[t] \in {"applied", "applied_first", "noted"}
  /\ rot' = IF hc[t] = "noted" THEN rot
            ELSE [rot EXCEPT ![GroupOf(t)] = {u \in Group[GroupOf(t)] : ts[u] = "healthy"}]
  /\ became' = [became EXCEPT ![t] = @ \/ (SignalAfterNotify /\ hc[t] = "applied_first")]
  /\ hc' = [hc EXCEPT ![t] = IF hcOn[t] THEN "idle" ELSE "off"]     \* hook hc_notified, back to the loop
  /\ UNCHANGED <<table, verLb, verRb, split, ts, saved, hcOn, nprobe, inflight, dr, snap, pstate, pgen, inc, pold, cm, next, res, rq, okEver, retired>>

HcStopped(t) ==                                \* loop observes its cancelled context
  /\ ~hcOn[t] /\ hc[t] = "idle"
  /\ hc' = [hc EXCEPT ![t] = "off"]
  /\ UNCHANGED <<table, verLb, verRb, split, ts, saved, rot, became, hcOn, nprobe, inflight, dr, snap, pstate, pgen, inc, pold, cm, next, res, rq, okEver, retired>>

(***************************************************************************)
(* Operator commands, issued one after the other.                          *)
(***************************************************************************)
DepCall(k) ==                                  \* findOrCreateService/CopyWithOptions, NewTargetList, NewLoadBalancer
  /\ cm.pc = "idle" /\ next = k /\ k <= NCmds /\ Cmds[k] = "deploy"
  /\ verLb' = [verLb EXCEPT ![k] = verLb[table]]       \* the copy shares the installed version's load balancers
  /\ verRb' = [verRb EXCEPT ![k] = verRb[table]]       \* ... rollout load balancer
  /\ split' = [split EXCEPT ![k] = split[table]]       \* ... and rollout controller
  /\ hcOn' = [t \in Targets |-> IF t \in Group[k] THEN TRUE ELSE hcOn[t]]
  /\ hc' = [t \in Targets |-> IF t \in Group[k] THEN "idle" ELSE hc[t]]
  /\ cm' = [k |-> k, pc |-> "wait", repl |-> 0, pend |-> {}, slot |-> "active", ver |-> k]
  /\ next' = k + 1
  /\ rq' = [r \in Reqs |-> IF rq[r].pc \notin {"new", "done"} THEN [rq[r] EXCEPT !.allowed = @ \cup {k}] ELSE rq[r]]
  /\ UNCHANGED <<table, ts, saved, rot, became, nprobe, inflight, dr, snap, pstate, pgen, inc, pold, res, okEver, retired>>

RdCall(k) ==                                   \* SetRolloutTargets: works on the installed service itself, not on a copy
  /\ cm.pc = "idle" /\ next = k /\ k <= NCmds /\ Cmds[k] = "rdeploy" /\ table # 0
  /\ hcOn' = [t \in Targets |-> IF t \in Group[k] THEN TRUE ELSE hcOn[t]]
  /\ hc' = [t \in Targets |-> IF t \in Group[k] THEN "idle" ELSE hc[t]]
  /\ cm' = [k |-> k, pc |-> "wait", repl |-> 0, pend |-> {}, slot |-> "rollout", ver |-> table]
  /\ next' = k + 1
  /\ rq' = [r \in Reqs |-> IF rq[r].pc \notin {"new", "done"} THEN [rq[r] EXCEPT !.allowed = @ \cup {k}] ELSE rq[r]]
  /\ UNCHANGED <<table, verLb, verRb, split, ts, saved, rot, became, nprobe, inflight, dr, snap, pstate, pgen, inc, pold, res, okEver, retired>>

DepWaitOk ==                                   \* WaitUntilHealthy: every target's becameHealthy closed before its waiter gave up
  /\ cm.pc = "wait"
  /\ \A t \in Group[cm.k] : became[t] /\ hcOn[t]
  /\ cm' = [cm EXCEPT !.pc = "healthy"]
  /\ UNCHANGED <<table, verLb, verRb, split, ts, saved, rot, became, hcOn, hc, nprobe, inflight, dr, snap, pstate, pgen, inc, pold, next, res, rq, okEver, retired>>

WaitTargetTimeout(t) ==                        \* Target.WaitUntilHealthy: this target's waiter gives up and stops its probe loop
  /\ cm.pc = "wait" /\ t \in Group[cm.k]
  /\ hcOn[t] /\ ~became[t]
  /\ hcOn' = [hcOn EXCEPT ![t] = FALSE]
  /\ UNCHANGED <<table, verLb, verRb, split, ts, saved, rot, became, hc, nprobe, inflight, dr, snap, pstate, pgen, inc, pold, cm, next, res, rq, okEver, retired>>

DepWaitTimeout ==                              \* all waiters are back and one of them gave up: lb.Dispose, the deploy fails
  /\ cm.pc = "wait"
  /\ \E t \in Group[cm.k] : ~hcOn[t]
  /\ \A t \in Group[cm.k] : became[t] \/ ~hcOn[t]
  /\ hcOn' = [t \in Targets |-> IF t \in Group[cm.k] THEN FALSE ELSE hcOn[t]]
  /\ cm' = [cm EXCEPT !.pc = "ret"]
  /\ res' = [res EXCEPT ![cm.k] = "unhealthy"]
  /\ UNCHANGED <<table, verLb, verRb, split, ts, saved, rot, became, hc, nprobe, inflight, dr, snap, pstate, pgen, inc, pold, next, rq, okEver, retired>>

DepUpdateSlot ==                               \* hook dep_healthy; UpdateLoadBalancer (on the copy, or on the live service for a rollout deploy)
  /\ cm.pc = "healthy"
  /\ IF cm.slot = "active"
     THEN /\ cm' = [cm EXCEPT !.pc = "updated", !.repl = verLb[cm.ver]]
          /\ verLb' = [verLb EXCEPT ![cm.ver] = cm.k]
          /\ UNCHANGED verRb
     ELSE /\ cm' = [cm EXCEPT !.pc = "updated", !.repl = verRb[cm.ver]]
          /\ verRb' = [verRb EXCEPT ![cm.ver] = cm.k]
          /\ UNCHANGED verLb
  /\ UNCHANGED <<table, split, ts, saved, rot, became, hcOn, hc, nprobe, inflight, dr, snap, pstate, pgen, inc, pold, next, res, rq, okEver, retired>>

DepInstall ==                                  \* hook dep_pre_install; installService under the router's write lock
  /\ cm.pc = "updated"
  /\ table' = cm.ver
  /\ cm' = [cm EXCEPT !.pc = IF cm.repl = 0 THEN "drained" ELSE "installed", !.pend = IF cm.repl = 0 THEN {} ELSE Group[cm.repl]]
  /\ dr' = [t \in Targets |-> IF cm.repl # 0 /\ t \in Group[cm.repl] THEN "start" ELSE dr[t]]
  /\ UNCHANGED <<verLb, verRb, split, ts, saved, rot, became, hcOn, hc, nprobe, inflight, snap, pstate, pgen, inc, pold, next, res, rq, okEver, retired>>

(***************************************************************************)
(* Drain of one target (target.go Drain), fanned out by DrainAll.          *)
(***************************************************************************)
DrainMark(t) ==                                \* updateState(draining); returns at once if already draining
  /\ dr[t] = "start"
  /\ IF ts[t] = "draining"
     THEN /\ dr' = [dr EXCEPT ![t] = "done"]
          /\ UNCHANGED <<ts, saved>>
     ELSE /\ ts' = [ts EXCEPT ![t] = "draining"]
          /\ saved' = [saved EXCEPT ![t] = ts[t]]
          /\ dr' = [dr EXCEPT ![t] = "marked"]
  /\ UNCHANGED <<table, verLb, verRb, split, rot, became, hcOn, hc, nprobe, inflight, snap, pstate, pgen, inc, pold, cm, next, res, rq, okEver, retired>>

DrainSnapshot(t) ==                            \* hook drain_marked; pendingRequestsToCancel + cancel hijacked at once
  /\ dr[t] = "marked"
  /\ LET up == {r \in inflight[t] : rq[r].pc = "upgraded"}
     IN /\ snap' = [snap EXCEPT ![t] = inflight[t] \ up]
        /\ inflight' = [inflight EXCEPT ![t] = @ \ up]
        /\ rq' = [r \in Reqs |-> IF r \in up THEN [rq[r] EXCEPT !.pc = "done"] ELSE rq[r]]
  /\ dr' = [dr EXCEPT ![t] = "waiting"]
  /\ UNCHANGED <<table, verLb, verRb, split, ts, saved, rot, became, hcOn, hc, nprobe, pstate, pgen, inc, pold, cm, next, res, okEver, retired>>

DrainWaitDone(t) ==                            \* every snapshotted request has finished
  /\ dr[t] = "waiting"
  /\ snap[t] \cap inflight[t] = {}
  /\ dr' = [dr EXCEPT ![t] = "cancelled"]
  /\ UNCHANGED <<table, verLb, verRb, split, ts, saved, rot, became, hcOn, hc, nprobe, inflight, snap, pstate, pgen, inc, pold, cm, next, res, rq, okEver, retired>>

DrainDeadline(t) ==                            \* the drain timeout fires first; hook drain_deadline; cancel the rest
  /\ dr[t] = "waiting"
  /\ snap[t] \cap inflight[t] # {}
  \* requests that finish within the drain timeout (kind "plain") do finish before the deadline:
  \* the proviso of C02/C03, and what virtual time implements
  /\ \A r \in snap[t] \cap inflight[t] : rq[r].kind # "plain"
  /\ LET cut == snap[t] \cap inflight[t]
     IN /\ inflight' = [inflight EXCEPT ![t] = @ \ cut]
        /\ rq' = [r \in Reqs |-> IF r \in cut THEN [rq[r] EXCEPT !.pc = "done", !.status = 504] ELSE rq[r]]
  /\ dr' = [dr EXCEPT ![t] = "cancelled"]
  /\ UNCHANGED <<table, verLb, verRb, split, ts, saved, rot, became, hcOn, hc, nprobe, snap, pstate, pgen, inc, pold, cm, next, res, okEver, retired>>

DrainRestore(t) ==                             \* deferred updateState(originalState)
  /\ dr[t] = "cancelled"
  /\ ts' = [ts EXCEPT ![t] = saved[t]]
  /\ dr' = [dr EXCEPT ![t] = "done"]
  /\ UNCHANGED <<table, verLb, verRb, split, saved, rot, became, hcOn, hc, nprobe, inflight, snap, pstate, pgen, inc, pold, cm, next, res, rq, okEver, retired>>

DrainAllDone ==                                \* wg.Wait of DrainAll; hook dep_drained / end of Service.Drain
  /\ cm.pc \in {"installed", "pdrain"}
  /\ \A t \in cm.pend : dr[t] = "done"
  /\ dr' = [t \in Targets |-> IF t \in cm.pend THEN "none" ELSE dr[t]]
  /\ cm' = [cm EXCEPT !.pc = IF cm.pc = "installed" THEN "drained" ELSE "ret"]
  /\ res' = IF cm.pc = "pdrain" THEN [res EXCEPT ![cm.k] = "ok"] ELSE res
  /\ UNCHANGED <<table, verLb, verRb, split, ts, saved, rot, became, hcOn, hc, nprobe, inflight, snap, pstate, pgen, inc, pold, next, rq, okEver, retired>>

DepDisposeOld ==                               \* replaced.Dispose(): stop the old group's probe loops
  /\ cm.pc = "drained"
  /\ hcOn' = [t \in Targets |-> IF cm.repl # 0 /\ t \in Group[cm.repl] THEN FALSE ELSE hcOn[t]]
  /\ cm' = [cm EXCEPT !.pc = "ret"]
  /\ res' = [res EXCEPT ![cm.k] = "ok"]
  /\ UNCHANGED <<table, verLb, verRb, split, ts, saved, rot, became, hc, nprobe, inflight, dr, snap, pstate, pgen, inc, pold, next, rq, okEver, retired>>

CmdReturn ==                                   \* the operator sees the command return
  /\ cm.pc = "ret"
  /\ retired' = [t \in Targets |->
                   retired[t] \/ (Cmds[cm.k] \in {"deploy", "rdeploy"} /\ res[cm.k] = "ok" /\ cm.repl # 0 /\ t \in Group[cm.repl])]
  /\ cm' = Idle
  /\ rq' = [r \in Reqs |-> IF rq[r].pc \notin {"new", "done"} /\ Cmds[cm.k] \in {"pause", "stop"}
                           THEN [rq[r] EXCEPT !.disturbed = TRUE] ELSE rq[r]]
  /\ UNCHANGED <<table, verLb, verRb, split, ts, saved, rot, became, hcOn, hc, nprobe, inflight, dr, snap, pstate, pgen, inc, pold, next, res, okEver>>

(***************************************************************************)
(* pause / stop / resume (service.go Pause/Stop/Resume, pause_controller)  *)
(***************************************************************************)
LiveLbs(v) == IF v = 0 THEN {} ELSE {verLb[v]} \cup (IF verRb[v] # 0 THEN {verRb[v]} ELSE {})
LiveTargets == UNION {Group[l] : l \in LiveLbs(table)}      \* Service.Drain: the active and the rollout load balancer

PcPause(k) ==                                  \* PauseController.Pause: new channel only on a state change
  /\ cm.pc = "idle" /\ next = k /\ k <= NCmds /\ Cmds[k] = "pause" /\ table # 0
  /\ pgen' = IF pstate # "paused" THEN pgen + 1 ELSE pgen
  /\ pstate' = "paused"
  /\ cm' = [k |-> k, pc |-> "pdrain", repl |-> 0, pend |-> LiveTargets, slot |-> "", ver |-> 0]    \* hook paused_pre_drain
  /\ dr' = [t \in Targets |-> IF t \in LiveTargets THEN "start" ELSE dr[t]]
  /\ next' = k + 1
  /\ rq' = [r \in Reqs |-> IF rq[r].pc \notin {"new", "done"} THEN [rq[r] EXCEPT !.disturbed = TRUE] ELSE rq[r]]
  /\ UNCHANGED <<table, verLb, verRb, split, ts, saved, rot, became, hcOn, hc, nprobe, inflight, snap, res, okEver, retired, inc, pold>>

PcStop(k) ==                                   \* setState(stopped): closes the channel when leaving paused
  /\ cm.pc = "idle" /\ next = k /\ k <= NCmds /\ Cmds[k] = "stop" /\ table # 0
  /\ pstate' = "stopped"
  /\ pgen' = pgen
  /\ cm' = [k |-> k, pc |-> "pdrain", repl |-> 0, pend |-> LiveTargets, slot |-> "", ver |-> 0]
  /\ dr' = [t \in Targets |-> IF t \in LiveTargets THEN "start" ELSE dr[t]]
  /\ next' = k + 1
  /\ rq' = [r \in Reqs |-> IF rq[r].pc \notin {"new", "done"} THEN [rq[r] EXCEPT !.disturbed = TRUE] ELSE rq[r]]
  /\ UNCHANGED <<table, verLb, verRb, split, ts, saved, rot, became, hcOn, hc, nprobe, inflight, snap, res, okEver, retired, inc, pold>>

PcResume(k) ==
  /\ cm.pc = "idle" /\ next = k /\ k <= NCmds /\ Cmds[k] = "resume" /\ table # 0
  /\ pstate' = "running"
  /\ cm' = [k |-> k, pc |-> "ret", repl |-> 0, pend |-> {}, slot |-> "", ver |-> 0]
  /\ res' = [res EXCEPT ![k] = "ok"]
  /\ next' = k + 1
  /\ rq' = [r \in Reqs |-> IF rq[r].pc \notin {"new", "done"}
                           THEN [rq[r] EXCEPT !.resumed = TRUE,
                                              !.allowed = IF rq[r].pc = "held" THEN LiveLbs(table) ELSE @]
                           ELSE rq[r]]
  /\ UNCHANGED <<table, verLb, verRb, split, ts, saved, rot, became, hcOn, hc, nprobe, inflight, dr, snap, pgen, inc, pold, okEver, retired>>

CmdNotFound(k) ==                              \* pause/stop/resume of a service that does not exist
  /\ cm.pc = "idle" /\ next = k /\ k <= NCmds /\ Cmds[k] \in {"pause", "stop", "resume", "rdeploy", "rset", "rstop", "remove"} /\ table = 0
  /\ cm' = [k |-> k, pc |-> "ret", repl |-> 0, pend |-> {}, slot |-> "", ver |-> 0]
  /\ res' = [res EXCEPT ![k] = "not_found"]
  /\ next' = k + 1
  /\ UNCHANGED <<table, verLb, verRb, split, ts, saved, rot, became, hcOn, hc, nprobe, inflight, dr, snap, pstate, pgen, inc, pold, rq, okEver, retired>>

CmdRemove(k) ==                                \* RemoveService: under the router's write lock the service is disposed
  /\ cm.pc = "idle" /\ next = k /\ k <= NCmds /\ Cmds[k] = "remove" /\ table # 0     \* (probe loops closed, nothing drained)
  /\ hcOn' = [t \in Targets |-> IF t \in LiveTargets THEN FALSE ELSE hcOn[t]]        \* and deleted from the table
  /\ table' = 0
  /\ pstate' = "running" /\ inc' = inc + 1       \* a later deploy creates a new service with a pause controller of its own
  /\ pold' = [pold EXCEPT ![inc] = [st |-> pstate, gen |-> pgen]]       \* requests already routed to the removed service still see its controller
  /\ res' = [res EXCEPT ![k] = "ok"]
  /\ cm' = [k |-> k, pc |-> "ret", repl |-> 0, pend |-> {}, slot |-> "", ver |-> 0]
  /\ next' = k + 1
  /\ rq' = [r \in Reqs |-> IF rq[r].pc \notin {"new", "done"} THEN [rq[r] EXCEPT !.disturbed = TRUE] ELSE rq[r]]
  /\ UNCHANGED <<verLb, verRb, split, ts, saved, rot, became, hc, nprobe, inflight, dr, snap, pgen, okEver, retired>>

RsSet(k) ==                                    \* SetRolloutSplit: refused while the service has no rollout targets
  /\ cm.pc = "idle" /\ next = k /\ k <= NCmds /\ Cmds[k] = "rset" /\ table # 0
  /\ IF verRb[table] = 0
     THEN res' = [res EXCEPT ![k] = "not_set"] /\ UNCHANGED <<split, rq>>
     ELSE /\ res' = [res EXCEPT ![k] = "ok"]
          /\ split' = [split EXCEPT ![table] = TRUE]
          /\ rq' = [r \in Reqs |-> IF rq[r].pc \notin {"new", "done"} THEN [rq[r] EXCEPT !.nosplit = FALSE] ELSE rq[r]]
  /\ cm' = [k |-> k, pc |-> "ret", repl |-> 0, pend |-> {}, slot |-> "", ver |-> 0]
  /\ next' = k + 1
  /\ UNCHANGED <<table, verLb, verRb, ts, saved, rot, became, hcOn, hc, nprobe, inflight, dr, snap, pstate, pgen, inc, pold, okEver, retired>>

RsStop(k) ==                                   \* StopRollout: the rollout controller is dropped, the rollout targets stay
  /\ cm.pc = "idle" /\ next = k /\ k <= NCmds /\ Cmds[k] = "rstop" /\ table # 0
  /\ split' = [split EXCEPT ![table] = FALSE]
  /\ res' = [res EXCEPT ![k] = "ok"]
  /\ cm' = [k |-> k, pc |-> "ret", repl |-> 0, pend |-> {}, slot |-> "", ver |-> 0]
  /\ next' = k + 1
  /\ UNCHANGED <<table, verLb, verRb, ts, saved, rot, became, hcOn, hc, nprobe, inflight, dr, snap, pstate, pgen, inc, pold, rq, okEver, retired>>

(***************************************************************************)
(* Client requests (router.go ServeHTTP, service.go, load_balancer.go)     *)
(***************************************************************************)
CliSend(r, kind) ==
  /\ rq[r].pc = "new" /\ kind \in Kinds
  /\ rq' = [rq EXCEPT ![r] = [@ EXCEPT !.pc = "sent", !.kind = kind,
              \* "deployed" in the operator's sense: some deploy of the service has returned ok
              !.dep = table # 0 /\ (\E k \in CmdIds : Cmds[k] = "deploy" /\ res[k] = "ok" /\ ~(cm.pc # "idle" /\ cm.k = k)),
              !.allowed = LiveLbs(table) \cup (IF cm.pc # "idle" /\ Cmds[cm.k] \in {"deploy", "rdeploy"} THEN {cm.k} ELSE {}),
              !.nosplit = table # 0 /\ ~split[table] /\ ~(cm.pc # "idle" /\ Cmds[cm.k] = "rset"),
              !.pAtSend = IF cm.pc # "idle" /\ Cmds[cm.k] \in {"pause", "stop", "resume"} THEN "busy" ELSE pstate,
              !.disturbed = cm.pc # "idle" /\ Cmds[cm.k] \in {"pause", "stop"}]]
  /\ UNCHANGED <<table, verLb, verRb, split, ts, saved, rot, became, hcOn, hc, nprobe, inflight, dr, snap, pstate, pgen, inc, pold, cm, next, res, okEver, retired>>

ReqRoute(r) ==                                 \* serviceForRequest under the read lock; hook routed
  /\ rq[r].pc = "sent"
  /\ rq' = [rq EXCEPT ![r] = IF table = 0 THEN [@ EXCEPT !.pc = "done", !.status = 404]
                             ELSE [@ EXCEPT !.pc = "routed", !.ver = table, !.rinc = inc]]
  /\ UNCHANGED <<table, verLb, verRb, split, ts, saved, rot, became, hcOn, hc, nprobe, inflight, dr, snap, pstate, pgen, inc, pold, cm, next, res, okEver, retired>>

PStateFor(r) == IF rq[r].rinc = inc THEN pstate ELSE pold[rq[r].rinc].st
PGenFor(r)   == IF rq[r].rinc = inc THEN pgen ELSE pold[rq[r].rinc].gen
ReqGate(r) ==                                  \* PauseController.Wait: getWaitState; hook wait_snapshot
  /\ rq[r].pc = "routed"
  /\ rq' = [rq EXCEPT ![r] =
       IF PStateFor(r) = "running" THEN [@ EXCEPT !.pc = "gated"]
       ELSE IF PStateFor(r) = "stopped" THEN [@ EXCEPT !.pc = "done", !.status = 503]
       ELSE [@ EXCEPT !.pc = "held", !.gen = PGenFor(r), !.ginc = rq[r].rinc, !.heldIn = PGenFor(r)]]
  /\ UNCHANGED <<table, verLb, verRb, split, ts, saved, rot, became, hcOn, hc, nprobe, inflight, dr, snap, pstate, pgen, inc, pold, cm, next, res, okEver, retired>>

ReqReleased(r) ==                              \* the release channel was closed (resume or stop) - also that of a service removed since
  /\ rq[r].pc = "held"
  /\ PGenFor(r) # rq[r].gen \/ PStateFor(r) # "paused"
  /\ rq' = [rq EXCEPT ![r] = IF PStateFor(r) = "stopped" THEN [@ EXCEPT !.pc = "done", !.status = 503]
                             ELSE [@ EXCEPT !.pc = "gated"]]
  /\ UNCHANGED <<table, verLb, verRb, split, ts, saved, rot, became, hcOn, hc, nprobe, inflight, dr, snap, pstate, pgen, inc, pold, cm, next, res, okEver, retired>>

ReqPauseTimeout(r) ==                          \* the request's own max-pause timer fires
  /\ rq[r].pc = "held"
  /\ rq' = [rq EXCEPT ![r] = [@ EXCEPT !.pc = "done", !.status = 504]]
  /\ UNCHANGED <<table, verLb, verRb, split, ts, saved, rot, became, hcOn, hc, nprobe, inflight, dr, snap, pstate, pgen, inc, pold, cm, next, res, okEver, retired>>

ReqPickLb(r, roll) ==                          \* hook gate_passed; loadBalancerForRequest reads active / rollout / controller
  /\ rq[r].pc = "gated"                        \* roll: the request carries the cookie and its value is inside the split
  /\ roll => (verRb[rq[r].ver] # 0 /\ split[rq[r].ver])                   \* (a pure function of the request)
  /\ rq' = [rq EXCEPT ![r] = [@ EXCEPT !.pc = "picked", !.roll = roll,
                                       !.lb = IF roll THEN verRb[rq[r].ver] ELSE verLb[rq[r].ver],
                                       !.gateclaim = pstate # "running"]]
  /\ UNCHANGED <<table, verLb, verRb, split, ts, saved, rot, became, hcOn, hc, nprobe, inflight, dr, snap, pstate, pgen, inc, pold, cm, next, res, okEver, retired>>

ReqClaimNone(r) ==                             \* hook pre_claim; claimTarget: rotation empty -> 503
  /\ rq[r].pc = "picked" /\ rot[rq[r].lb] = {}
  /\ rq' = [rq EXCEPT ![r] = [@ EXCEPT !.pc = "done", !.status = 503, !.stale = (rq[r].ver # table \/ rq[r].lb \notin LiveLbs(rq[r].ver)),
                                       !.gateclaim = @ \/ pstate # "running"]]
  /\ UNCHANGED <<table, verLb, verRb, split, ts, saved, rot, became, hcOn, hc, nprobe, inflight, dr, snap, pstate, pgen, inc, pold, cm, next, res, okEver, retired>>

ReqClaim(r, t) ==                              \* claimTarget: next in rotation (any order), StartRequest
  /\ rq[r].pc = "picked" /\ t \in rot[rq[r].lb]
  /\ IF ts[t] = "draining"
     THEN /\ rq' = [rq EXCEPT ![r] = [@ EXCEPT !.pc = "done", !.status = 503, !.stale = (rq[r].ver # table \/ rq[r].lb \notin LiveLbs(rq[r].ver)),
                                               !.gateclaim = @ \/ pstate # "running"]]
          /\ UNCHANGED inflight
     ELSE /\ rq' = [rq EXCEPT ![r] = [@ EXCEPT !.pc = "claimed", !.tgt = t, !.stale = (rq[r].ver # table \/ rq[r].lb \notin LiveLbs(rq[r].ver)),
                                               !.gateclaim = @ \/ pstate # "running",
                                               !.claimTs = ts[t], !.claimHc = hc[t]]]
          /\ inflight' = [inflight EXCEPT ![t] = @ \cup {r}]
  /\ UNCHANGED <<table, verLb, verRb, split, ts, saved, rot, became, hcOn, hc, nprobe, dr, snap, pstate, pgen, inc, pold, cm, next, res, okEver, retired>>

TgBegin(r) ==                                  \* the target sees the request
  /\ rq[r].pc = "claimed"
  /\ rq' = [rq EXCEPT ![r] = [@ EXCEPT !.pc = IF rq[r].kind \in {"upgrade", "slowupgrade"} THEN "upgraded" ELSE "atTarget",
                                       !.lateBeg = retired[rq[r].tgt]]]
  /\ UNCHANGED <<table, verLb, verRb, split, ts, saved, rot, became, hcOn, hc, nprobe, inflight, dr, snap, pstate, pgen, inc, pold, cm, next, res, okEver, retired>>

ReqEnd(r) ==                                   \* the target replies; endInflightRequest; client gets 200
  /\ rq[r].pc = "atTarget" /\ rq[r].kind \in {"plain", "slow"}
  /\ r \in inflight[rq[r].tgt]
  /\ inflight' = [inflight EXCEPT ![rq[r].tgt] = @ \ {r}]
  /\ rq' = [rq EXCEPT ![r] = [@ EXCEPT !.pc = "done", !.status = 200]]
  /\ UNCHANGED <<table, verLb, verRb, split, ts, saved, rot, became, hcOn, hc, nprobe, dr, snap, pstate, pgen, inc, pold, cm, next, res, okEver, retired>>

UpgEnd(r) ==                                   \* an upgraded connection is closed by its peers; endInflightRequest
  /\ rq[r].pc = "upgraded" /\ rq[r].kind = "slowupgrade"
  /\ r \in inflight[rq[r].tgt]
  /\ inflight' = [inflight EXCEPT ![rq[r].tgt] = @ \ {r}]
  /\ rq' = [rq EXCEPT ![r] = [@ EXCEPT !.pc = "done"]]
  /\ UNCHANGED <<table, verLb, verRb, split, ts, saved, rot, became, hcOn, hc, nprobe, dr, snap, pstate, pgen, inc, pold, cm, next, res, okEver, retired>>

Finished ==                                    \* nothing left to do: stutter (so that deadlock checking is meaningful)
  /\ next > NCmds /\ cm.pc = "idle"
  /\ \A r \in Reqs : rq[r].pc \in {"done", "upgraded"} \/ (rq[r].pc = "atTarget" /\ rq[r].kind \in {"forever", "slow"})
  /\ UNCHANGED vars

Next ==
  \/ \E t \in Targets : HcSend(t) \/ HcApply(t) \/ HcNotify(t) \/ HcStopped(t)
                        \/ DrainMark(t) \/ DrainSnapshot(t) \/ DrainWaitDone(t) \/ DrainDeadline(t) \/ DrainRestore(t)
  \/ \E t \in Targets, good \in BOOLEAN : TgProbeReply(t, good)
  \/ \E t \in Targets : TgProbeDropped(t) \/ WaitTargetTimeout(t)
  \/ \E k \in CmdIds : DepCall(k) \/ RdCall(k) \/ RsSet(k) \/ RsStop(k) \/ CmdRemove(k) \/ PcPause(k) \/ PcStop(k) \/ PcResume(k) \/ CmdNotFound(k)
  \/ DepWaitOk \/ DepWaitTimeout \/ DepUpdateSlot \/ DepInstall \/ DrainAllDone \/ DepDisposeOld \/ CmdReturn
  \/ \E r \in Reqs, kind \in Kinds : CliSend(r, kind)
  \/ \E r \in Reqs : ReqRoute(r) \/ ReqGate(r) \/ ReqReleased(r) \/ ReqPauseTimeout(r)
                     \/ ReqClaimNone(r) \/ TgBegin(r) \/ ReqEnd(r) \/ UpgEnd(r)
  \/ \E r \in Reqs, roll \in BOOLEAN : ReqPickLb(r, roll)
  \/ \E r \in Reqs, t \in Targets : ReqClaim(r, t)
  \/ Finished

Spec == Init /\ [][Next]_vars

(***************************************************************************)
(* Shape invariants                                                        *)
(***************************************************************************)
TypeOK ==
  /\ table \in 0..NCmds
  /\ \A t \in Targets : ts[t] \in {"adding", "healthy", "unhealthy", "draining"}
  /\ \A t \in Targets : inflight[t] \subseteq Reqs
  /\ pstate \in {"running", "paused", "stopped"}

(***************************************************************************)
(* The listed properties, on the design state.  A request whose history    *)
(* matches a known finding (Stale / GateClaim, the same signatures as      *)
(* Obs!Sig) is exempted; MC_*_NoExempt.cfg runs without the exemptions     *)
(* and must produce the counterexamples.                                   *)
(***************************************************************************)
CONSTANT Exempt        \* TRUE: known findings are exempted
KF(r) == Exempt /\ (rq[r].stale \/ rq[r].gateclaim)

AtTarget(r) == rq[r].pc \in {"claimed", "atTarget", "upgraded"} \/ (rq[r].pc = "done" /\ rq[r].tgt # NoTarget)

D_C01_a == \A r \in Reqs : rq[r].tgt # NoTarget => \A u \in Group[GroupOf(rq[r].tgt)] : okEver[u]
D_C01_c == \A r \in Reqs : rq[r].tgt # NoTarget => res[GroupOf(rq[r].tgt)] # "unhealthy"
D_C01_b == \A k \in CmdIds : (Cmds[k] = "deploy" /\ res[k] = "ok") => \A u \in Group[k] : okEver[u]

\* C02: a plain request sent while the service was deployed and running, with targets that never fail
D_C02 == \A r \in Reqs :
            (rq[r].pc = "done" /\ rq[r].dep /\ rq[r].kind = "plain" /\ ~AllowBad
             /\ rq[r].pAtSend = "running" /\ ~rq[r].disturbed /\ ~KF(r))
            => (rq[r].status = 200 /\ GroupOf(rq[r].tgt) \in rq[r].allowed)

\* C03_b: no request begins on a target after the deploy that replaced it has returned
D_C03_b == \A r \in Reqs : rq[r].lateBeg => KF(r)
\* C03_a: once that deploy has returned nothing is still registered at the target
D_C03_a == \A t \in Targets : retired[t] => \A r \in inflight[t] : KF(r)
\* C03 for pause/stop: after pause/stop returned and until resume is called, nothing in flight / nothing new
Quiesced == cm.pc = "idle" /\ pstate \in {"paused", "stopped"}
D_C03_p == Quiesced => \A t \in LiveTargets : \A r \in inflight[t] : KF(r)

\* C07_a / C08: a request sent in a definite paused (stopped) interval is not forwarded before resume
D_C07_a == \A r \in Reqs : (rq[r].pAtSend \in {"paused", "stopped"} /\ ~rq[r].resumed /\ ~KF(r)) => rq[r].tgt = NoTarget
\* C07_b: a held request released by resume is served by the group the service has at that moment (or a later one)
D_C07_b == \A r \in Reqs : (rq[r].pc = "done" /\ rq[r].heldIn # 0 /\ rq[r].status = 200 /\ ~KF(r))
                            => GroupOf(rq[r].tgt) \in rq[r].allowed
\* C07_f: a request whose life never overlapped a stop is never answered 503 (targets never fail here)
D_C07_f == \A r \in Reqs :
             (rq[r].pc = "done" /\ rq[r].status = 503 /\ ~AllowBad /\ ~KF(r))
             => (\E k \in CmdIds : Cmds[k] = "stop" /\ (res[k] # "" \/ (cm.pc # "idle" /\ cm.k = k)))
\* C08: sent while definitely stopped and undisturbed -> 503
D_C08 == \A r \in Reqs : (rq[r].pc = "done" /\ rq[r].pAtSend = "stopped" /\ ~rq[r].disturbed /\ ~rq[r].resumed /\ rq[r].dep) => rq[r].status = 503

\* C17_c: no probe loop survives for a replaced or rejected group once the command has returned
D_C17_c == /\ \A t \in Targets : retired[t] => ~hcOn[t]
           /\ \A k \in CmdIds : (res[k] = "unhealthy" /\ ~(cm.pc # "idle" /\ cm.k = k)) => \A t \in Group[k] : ~hcOn[t]

\* C17_c for remove: while no service is installed and no command is running nothing is probed
D_C17_r == (table = 0 /\ cm.pc = "idle") => \A t \in Targets : ~hcOn[t]

\* C09 (design level): a target is claimed only while its applied state is healthy, or in the window between
\* the locked section of HealthCheckCompleted and the rotation update that follows it (hc = "applied")
D_C09 == \A r \in Reqs : rq[r].tgt # NoTarget => (rq[r].claimTs = "healthy" \/ rq[r].claimHc = "applied" \/ rq[r].stale)

\* C10: a request sent while no split was set (and none set during its life) is never served by rollout targets
D_C10 == \A r \in Reqs : (rq[r].tgt # NoTarget /\ rq[r].nosplit /\ ~KF(r)) => Cmds[GroupOf(rq[r].tgt)] # "rdeploy"
\* C10: a split can only be in force on a version that has rollout targets
D_C10_split == \A v \in 1..NCmds : split[v] => verRb[v] # 0

(***************************************************************************)
(* Witness goals: situations the executor should be steered into.  Each    *)
(* is the NEGATION of an interesting situation; TLC's counterexample is    *)
(* the schedule.                                                           *)
(***************************************************************************)
W_ClaimWhileDraining == ~\E r \in Reqs : rq[r].pc = "done" /\ rq[r].status = 503 /\ rq[r].stale
W_CutAtDeadline      == ~\E r \in Reqs : rq[r].pc = "done" /\ rq[r].status = 504 /\ rq[r].tgt # NoTarget
W_ServedByRetired    == ~\E r \in Reqs : rq[r].lateBeg
W_UpgradeClosed      == ~\E r \in Reqs : rq[r].pc = "done" /\ rq[r].kind = "upgrade" /\ rq[r].tgt # NoTarget
W_FailedDeploy       == ~\E k \in CmdIds : res[k] = "unhealthy"
W_HeldThenServed     == ~\E r \in Reqs : rq[r].pc = "done" /\ rq[r].heldIn # 0 /\ rq[r].status = 200
W_HeldThenStopped    == ~\E r \in Reqs : rq[r].pc = "done" /\ rq[r].heldIn # 0 /\ rq[r].status = 503
W_GateClaim          == ~\E r \in Reqs : rq[r].gateclaim /\ rq[r].pc = "done"
W_ServedByRollout    == ~\E r \in Reqs : rq[r].pc = "done" /\ rq[r].status = 200 /\ rq[r].roll

(***************************************************************************)
(* Liveness (checked under fairness without state constraint):             *)
(* every issued command returns; every sent plain request is answered.     *)
(***************************************************************************)
FairnessBase ==
  /\ \A t \in Targets : WF_vars(HcApply(t)) /\ WF_vars(HcNotify(t)) /\ WF_vars(HcStopped(t))
                        /\ WF_vars((\E good \in BOOLEAN : TgProbeReply(t, good)) \/ TgProbeDropped(t))   \* a probe completes one way or the other
                        /\ WF_vars(DrainMark(t)) /\ WF_vars(DrainSnapshot(t)) /\ WF_vars(WaitTargetTimeout(t))
                        /\ WF_vars(DrainWaitDone(t)) /\ WF_vars(DrainRestore(t))
  /\ WF_vars(DepWaitOk) /\ WF_vars(DepWaitTimeout) /\ WF_vars(DepUpdateSlot) /\ WF_vars(DepInstall)
  /\ WF_vars(DrainAllDone) /\ WF_vars(DepDisposeOld) /\ WF_vars(CmdReturn)
  /\ \A r \in Reqs : WF_vars(ReqRoute(r)) /\ WF_vars(ReqGate(r)) /\ WF_vars(ReqReleased(r)) /\ WF_vars(ReqPauseTimeout(r))
                     /\ WF_vars(\E roll \in BOOLEAN : ReqPickLb(r, roll)) /\ WF_vars(ReqClaimNone(r)) /\ WF_vars(TgBegin(r)) /\ WF_vars(ReqEnd(r))
                     /\ WF_vars(\E t \in Targets : ReqClaim(r, t))

Fairness == FairnessBase /\ \A t \in Targets : WF_vars(DrainDeadline(t))

FairSpec == Spec /\ Fairness
\* negative control: without the drain deadline a request that never ends keeps its command from returning
FairSpecNoDeadline == Spec /\ FairnessBase

L_CommandsReturn == \A k \in CmdIds : (cm.pc # "idle" /\ cm.k = k) ~> (res[k] # "" /\ ~(cm.pc # "idle" /\ cm.k = k))
L_RequestsAnswered == \A r \in Reqs : (rq[r].pc = "sent" /\ rq[r].kind = "plain") ~> (rq[r].pc = "done")
\* a held request of any kind leaves the gate (released, stopped, or its own max-pause timer)
L_HeldLeaves == \A r \in Reqs : (rq[r].pc = "held") ~> (rq[r].pc # "held")
\* the probe loop of a target whose load balancer was disposed stops for good
L_ProbesStop == \A t \in Targets : (~hcOn[t] /\ hc[t] # "off") ~> (hc[t] = "off")
\* a drain that was started completes
L_DrainsComplete == \A t \in Targets : (dr[t] = "start") ~> (dr[t] \in {"done", "none"})
=============================================================================
