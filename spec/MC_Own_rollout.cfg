SPECIFICATION Spec
CONSTANTS
  Cmds <- C6
  Kind <- Kind6
  Name <- Name6
  Bind <- Bind6
  MayFail = TRUE
  AtomicInstall = TRUE
  CheckOnRollout = TRUE
  DisposeOnConflict = TRUE
INVARIANTS
  O_Ownership
  O_FailedLeavesNothing
  O_NoLeak
PROPERTIES
  A_RefusalJustified
  A_FailChangesNothing
CHECK_DEADLOCK TRUE
