SPECIFICATION FairSpec
CONSTANTS
  t1 = t1
  t2 = t2
  r1 = r1
  r2 = r2
  r3 = r3
  NoTarget = NoTarget
  Cmds <- CmdsD
  Group <- GrpD
  Reqs = {r1}
  Kinds = {"plain", "forever", "upgrade"}
  MaxProbes = 1
  AllowBad = FALSE
  SignalAfterNotify = TRUE
  Exempt = TRUE
INVARIANTS
  TypeOK
PROPERTIES
  L_CommandsReturn
  L_RequestsAnswered
  L_HeldLeaves
  L_ProbesStop
  L_DrainsComplete
CHECK_DEADLOCK TRUE
