----------------------------- MODULE AccessLog -----------------------------
(***************************************************************************)
(* C19: every request yields exactly one access-log record, and the record *)
(* says what actually happened.  A request's life ends in one of the       *)
(* classes below; the record's fields are functions of the class and of    *)
(* what client and target observed.                                        *)
(***************************************************************************)
EXTENDS Integers, Sequences, FiniteSets

Classes == {"served", "early", "cut", "notfound", "stopped", "pausedout", "redirect", "tlsrefused", "fault502", "fault504",
            "overflow413", "overflow500", "abort", "upgrade"}

\* the status the record must carry
LoggedStatus(class, seenStatus) ==
  CASE class = "abort" -> 499          \* the client is gone: the conventional "client closed request"
    [] class = "upgrade" -> 101
    [] OTHER -> seenStatus

\* the service the record must name ("" only when no service matched)
LoggedService(class, svc) == IF class = "notfound" THEN "" ELSE svc
\* classes in which no target is ever chosen
NoTargetClasses == {"notfound", "stopped", "pausedout", "redirect", "tlsrefused"}
\* classes whose response the client received completely (so the byte count is defined by what the client got)
CompleteClasses == Classes \ {"abort", "upgrade", "cut"}

\* life-cycle model: whatever branch a request takes, exactly one record is written when it ends
VARIABLES stage, class, records
Init == stage = "arrived" /\ class = "none" /\ records = 0
Route == stage = "arrived" /\ stage' = "routed" /\ class' \in Classes /\ UNCHANGED records
Finish == stage = "routed" /\ stage' = "logged" /\ records' = records + 1 /\ UNCHANGED class
Next == Route \/ Finish \/ (stage = "logged" /\ UNCHANGED <<stage, class, records>>)
Spec == Init /\ [][Next]_<<stage, class, records>>
Inv_OneRecord == (stage = "logged" => records = 1) /\ (stage # "logged" => records = 0)
=============================================================================
