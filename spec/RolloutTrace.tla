--------------------------- MODULE RolloutTrace ---------------------------
(* Validates recorded rollout decisions: per cookie value the bounds       *)
(* lo <= Theta[v] <= hi are narrowed by every line; a line that empties    *)
(* the interval (not sticky, not monotone, 100 % not total), an            *)
(* allowlisted value that is not used, a request without the cookie that   *)
(* is used, or a share outside the 6-sigma binomial band is a violation.   *)
EXTENDS Integers, Sequences, FiniteSets, TLC, Json, IOUtils

Log == ndJsonDeserialize(IOEnv.VERIF_TRACE)

VARIABLES l, lo, hi, cnt, viol, cov
vars == <<l, lo, hi, cnt, viol, cov>>
Init == l = 1 /\ lo = <<>> /\ hi = <<>> /\ cnt = [p \in 0..100 |-> 0] /\ viol = {} /\ cov = <<>> /\ TLCSet(1, 0)

Get(f, k, d) == IF k \in DOMAIN f THEN f[k] ELSE d
Put(f, k, v) == (k :> v) @@ f
If(b, S) == IF b /\ Cardinality(viol) < 100 THEN S ELSE {}
V(inv, subj, detail, e) == [inv |-> inv, subj |-> subj, sig |-> "", detail |-> ToString(detail), scn |-> e.scn, line |-> l]
Bump(inv) == [i \in DOMAIN cov \cup {inv} |-> (IF i \in DOMAIN cov THEN cov[i] ELSE 0) + (IF i = inv THEN 1 ELSE 0)]

Step ==
  /\ l <= Len(Log)
  /\ LET e == Log[l] IN
     CASE e.ev = "reset" -> /\ lo' = <<>> /\ hi' = <<>> /\ cnt' = [p \in 0..100 |-> 0] /\ UNCHANGED <<viol, cov>>
       [] e.ev = "rollout_obs" ->
            IF ~e.active THEN
               \* no split in force (none set, after rollout stop, no rollout targets): everything goes to the active targets
               /\ viol' = viol \cup If(e.uses, {V("C10_off", e.v, <<"used rollout targets although no split is in force", e.why>>, e)})
               /\ cov' = Bump("C10_off") /\ UNCHANGED <<lo, hi, cnt>>
            ELSE IF ~e.present THEN
               /\ viol' = viol \cup If(e.uses, {V("C10_optin", e.v, <<"request without the cookie went to the rollout targets at", e.pct>>, e)})
               /\ cov' = Bump("C10_optin") /\ UNCHANGED <<lo, hi, cnt>>
            ELSE IF e.allow THEN
               /\ viol' = viol \cup If(~e.uses, {V("C10_allow", e.v, <<"allowlisted value not sent to the rollout targets at", e.pct>>, e)})
               /\ cov' = Bump("C10_allow") /\ UNCHANGED <<lo, hi, cnt>>
            ELSE
               LET a == Get(lo, e.v, 0)
                   b == Get(hi, e.v, 100)
                   a2 == IF e.uses THEN a ELSE (IF e.pct + 1 > a THEN e.pct + 1 ELSE a)
                   b2 == IF e.uses THEN (IF e.pct < b THEN e.pct ELSE b) ELSE b
               IN /\ lo' = Put(lo, e.v, a2) /\ hi' = Put(hi, e.v, b2)
                  /\ viol' = viol \cup If(a2 > b2, {V("C10_fn", e.v, <<"no threshold explains the decisions: uses", e.uses, "at", e.pct, "bounds", a, b>>, e)})
                  /\ cnt' = IF e.sample /\ e.uses THEN [cnt EXCEPT ![e.pct] = @ + 1] ELSE cnt
                  /\ cov' = Bump("C10_fn")
       [] e.ev = "rollout_end" ->
            \* share of the random sample included at each percentage: within 6 sigma of n*p/100
            LET n == e.n
                bad == {p \in 0..100 : LET d == cnt[p] - (n * p) \div 100 IN d * d > (36 * n * p * (100 - p)) \div 10000 + 4}
            IN /\ viol' = viol \cup If(bad # {}, {V("C10_share", "sample", <<"share outside the binomial band at percentages", bad, "n", n>>, e)})
               /\ cov' = Bump("C10_share") /\ UNCHANGED <<lo, hi, cnt>>
       [] e.ev = "harness_error" -> /\ viol' = viol \cup {V("HARNESS", "", e.what, e)} /\ UNCHANGED <<lo, hi, cnt, cov>>
       [] OTHER -> UNCHANGED <<lo, hi, cnt, viol, cov>>
  /\ l' = l + 1
  /\ TLCSet(1, l)

Eof ==
  /\ l = Len(Log) + 1
  /\ JsonSerialize(IOEnv.VERIF_OUT, [lines |-> Len(Log), violations |-> viol, coverage |-> cov])
  /\ TLCSet(1, l)
  /\ l' = l + 1
  /\ UNCHANGED <<lo, hi, cnt, viol, cov>>

Next == Step \/ Eof
Spec == Init /\ [][Next]_vars
Accepted == TLCGet(1) = Len(Log) + 1
===========================================================================
