package harness

import (
	"fmt"
	"math/rand"
)

// "Duels": scenarios that collect goroutines at chosen hooks and release them together, so that the code between those
// hooks and the next ones runs in parallel on the real scheduler. They aim at interleavings INSIDE what the design
// models treat as one step - the steps of the negative-control variants (check then set, check then insert, read then
// assign) - which no yield hook can separate. Short and cheap: a run makes hundreds of them.

// GenDuelOwn: two or three deploys of different services claiming the same host/path pair meet right before
// installService. Serves C05 (design model spec/Own.tla, variant AtomicInstall = FALSE).
func GenDuelOwn(seed int64, idx int, tier string) *Plan {
	rng := rand.New(rand.NewSource(seed*13000027 + int64(idx)))
	p := &Plan{Family: "duelown", Seed: seed*13000027 + int64(idx), Targets: map[string]TargetScript{}, QuantumMs: 100, SettleMs: 2500,
		Sched: "barrier", Barrier: []string{"dep_pre_install"}, ParkPoints: []string{"dep_pre_install"}, BarrierFree: false}
	k := 2 + rng.Intn(2)
	p.BarrierN = k
	hostsets := [][]string{{"h.test"}, {"h.test", "g.test"}, {"h.test", "*.test"}}
	pathsets := [][]string{{}, {"/", "/api"}, {"/"}}
	for i := 0; i < k; i++ {
		t := fmt.Sprintf("t%d", i+1)
		p.Targets[t] = TargetScript{Then: ProbeOutcome{Class: "ok"}}
		p.Lanes = append(p.Lanes, []Cmd{{ID: fmt.Sprintf("c%d", i+1), Kind: "deploy", Svc: []string{"A", "B", "C"}[i],
			Hosts: hostsets[rng.Intn(len(hostsets))], Paths: pathsets[rng.Intn(len(pathsets))], Targets: []string{t},
			DeployTimeoutMs: 2500, DrainTimeoutMs: 500}})
	}
	p.Clients = [][]Req{{{ID: "r1", Svc: "?", Host: "h.test", Path: "/", Kind: "plain", WaitMs: 1500}}}
	return p
}

// GenDuelDrain: requests routed to a service meet the drain of its target (redeploy, pause or stop) at the claim:
// StartRequest against Drain's mark-and-snapshot. Serves C03 (and shows up as known findings of C02/C07).
func GenDuelDrain(seed int64, idx int, tier string) *Plan {
	rng := rand.New(rand.NewSource(seed*17000023 + int64(idx)))
	p := &Plan{Family: "dueldrain", Seed: seed*17000023 + int64(idx), Targets: map[string]TargetScript{}, QuantumMs: 100, SettleMs: 4000,
		Sched: "barrier", Barrier: []string{"pre_claim", "drain_start"}, ParkPoints: []string{"pre_claim", "drain_start"}, BarrierFree: true,
		Urgent: false}
	p.Targets["t1"] = TargetScript{Then: ProbeOutcome{Class: "ok"}}
	p.Targets["t2"] = TargetScript{Then: ProbeOutcome{Class: "ok"}}
	lane := []Cmd{{ID: "c1", Kind: "deploy", Svc: "A", Hosts: []string{"a.test"}, Targets: []string{"t1"}, DeployTimeoutMs: 2000, DrainTimeoutMs: 2000}}
	switch rng.Intn(3) {
	case 0:
		lane = append(lane, Cmd{ID: "c2", Kind: "deploy", Svc: "A", Hosts: []string{"a.test"}, Targets: []string{"t2"}, DeployTimeoutMs: 2000, DrainTimeoutMs: 2000, WaitMs: 100})
	case 1:
		lane = append(lane, Cmd{ID: "c2", Kind: "pause", Svc: "A", DrainTimeoutMs: 2000, MaxPauseMs: 3000, WaitMs: 100})
	default:
		lane = append(lane, Cmd{ID: "c2", Kind: "stop", Svc: "A", DrainTimeoutMs: 2000, Msg: "later", WaitMs: 100})
	}
	p.Lanes = [][]Cmd{lane}
	k := 1 + rng.Intn(3)
	for i := 0; i < k; i++ {
		// slow enough to be still running when a drain that did not wait for them has returned
		p.Clients = append(p.Clients, []Req{{ID: fmt.Sprintf("r%d", i+1), Svc: "A", Host: "a.test", Path: "/x", Kind: "slow", HoldMs: 300 + rng.Intn(400), After: "c1", Chunked: i%2 == 1}})
	}
	p.BarrierN = k + 1
	return p
}

// GenDuelProbe: two probe loops of one load balancer change their targets' states at the same tick - one target
// recovers, the other fails - and meet between the locked state change and the rotation update. Serves C09.
func GenDuelProbe(seed int64, idx int, tier string) *Plan {
	rng := rand.New(rand.NewSource(seed*19000013 + int64(idx)))
	p := &Plan{Family: "duelprobe", Seed: seed*19000013 + int64(idx), Targets: map[string]TargetScript{}, QuantumMs: 100, SettleMs: 800,
		Sched: "barrier", BarrierFree: true, Urgent: true}
	bad := func() ProbeOutcome {
		if rng.Intn(2) == 0 {
			return ProbeOutcome{Class: "bad", Status: 503}
		}
		return ProbeOutcome{Class: "refuse"}
	}
	ok := ProbeOutcome{Class: "ok"}
	// round 0: both ok (deploy); round 1: t1 fails; round 2: t1 recovers while t2 fails; afterwards t1 ok, t2 failing
	p.Targets["t1"] = TargetScript{Probes: []ProbeOutcome{ok, bad(), ok}, Then: ok}
	f := bad()
	p.Targets["t2"] = TargetScript{Probes: []ProbeOutcome{ok, ok, f}, Then: f}
	// the recovering target's loop is past its locked state change, the failing target's loop is about to make its own
	a, b := "t1", "t2"
	if rng.Intn(2) == 0 {
		// or the other way round: the failing one has applied, the recovering one has not
		a, b = "t2", "t1"
	}
	p.Barrier = []string{"hc_applied@hc:" + a + "#1", "hc_result@hc:" + b + "#1"}
	// the loop that still has to apply its result starts up to 30 microseconds after the one that is about to rebuild the
	// rotation (or the other way round): the rebuild of one is under way when the other's state change arrives
	if rng.Intn(4) > 0 {
		late := p.Barrier[rng.Intn(2)]
		p.BarrierStaggerNs = map[string]int{late: 500 + rng.Intn(30000)}
	}
	if idx%2 == 1 {
		// "slow reader": t2's loop has applied its change and rebuilds the rotation - it reads t1's state, and is then held
		// for a little real time before it reads t2's (hook state_read); t1's loop applies t1's change and rebuilds the
		// rotation meanwhile. Whatever the first loop installs afterwards must not carry t1's old state. (With the rebuild
		// under lb.lock, as in the code, the second loop simply waits for the lock.)
		if rng.Intn(2) == 0 {
			// t2 recovers while t1 starts failing for good: a stale rotation keeps sending to t1
			f1 := bad()
			p.Targets["t1"] = TargetScript{Probes: []ProbeOutcome{ok, ok, f1}, Then: f1}
			p.Targets["t2"] = TargetScript{Probes: []ProbeOutcome{ok, bad(), ok}, Then: ok}
		}
		// (else, as above: t2 starts failing while t1 recovers: a stale rotation is empty although t1 is healthy)
		p.Barrier = []string{"hc_applied@hc:t2#1", "hc_result@hc:t1#1"}
		p.BarrierStaggerNs = nil
		p.ReadSpin = map[string]int{"t2": 50 + rng.Intn(400)}
	}
	p.ParkPoints = []string{"hc_applied", "hc_result"}
	p.BarrierN = 2
	p.BarrierAfterMs = 1900
	p.Lanes = [][]Cmd{{{ID: "c1", Kind: "deploy", Svc: "A", Hosts: []string{"a.test"}, Targets: []string{"t1", "t2"}, DeployTimeoutMs: 2000, DrainTimeoutMs: 500,
		HCIntervalMs: 1000, HCTimeoutMs: 500}}}
	var cl []Req
	for i := 0; i < 6; i++ {
		w := 0
		if i == 0 {
			w = 2150
		}
		cl = append(cl, Req{ID: fmt.Sprintf("r%d", i+1), Svc: "A", Host: "a.test", Path: "/x", Kind: "plain", WaitMs: w + 40, Sync: true})
	}
	p.Clients = [][]Req{cl}
	return p
}

// GenDuelStop: requests held at the gate of a paused service are released by a stop (or a resume) while nothing is
// parked: the waiters wake on the real scheduler the moment the release channel is closed and re-read the state while
// the command is still inside the pause controller. Serves C07 (held + stop => 503 with the message; held + resume =>
// forwarded).
func GenDuelStop(seed int64, idx int, tier string) *Plan {
	rng := rand.New(rand.NewSource(seed*23000009 + int64(idx)))
	p := &Plan{Family: "duelstop", Seed: seed*23000009 + int64(idx), Targets: map[string]TargetScript{}, QuantumMs: 100, SettleMs: 3000,
		Sched: "random", ParkPoints: []string{"dep_started"}, Urgent: true}
	p.Targets["t1"] = TargetScript{Then: ProbeOutcome{Class: "ok"}}
	last := Cmd{ID: "c3", Kind: "stop", Svc: "A", DrainTimeoutMs: 500, Msg: "closed", WaitMs: 300}
	if rng.Intn(4) == 0 {
		last = Cmd{ID: "c3", Kind: "resume", Svc: "A", WaitMs: 300}
	}
	p.Lanes = [][]Cmd{{
		{ID: "c1", Kind: "deploy", Svc: "A", Hosts: []string{"a.test"}, Targets: []string{"t1"}, DeployTimeoutMs: 2000, DrainTimeoutMs: 500},
		{ID: "c2", Kind: "pause", Svc: "A", DrainTimeoutMs: 500, MaxPauseMs: 3000},
		last,
	}}
	k := 8 + rng.Intn(17)
	for i := 0; i < k; i++ {
		p.Clients = append(p.Clients, []Req{{ID: fmt.Sprintf("r%d", i+1), Svc: "A", Host: "a.test", Path: "/x", Kind: "plain", After: "c2", WaitMs: 10 + rng.Intn(100)}})
	}
	return p
}
