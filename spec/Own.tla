--------------------------------- MODULE Own ---------------------------------
(***************************************************************************)
(* Design model of the router's service table under concurrent commands    *)
(* (router.go DeployService / deployTargetsIntoService / installService /  *)
(* RemoveService, service_map.go CheckAvailability), for C05, C06 and the  *)
(* probe part of C17.                                                      *)
(*                                                                         *)
(* Several deploys and removes, for the same or different services, run at *)
(* the same time.  A deploy: copies the installed service (remembering its *)
(* load balancer), starts probing its new targets, waits, and then - under *)
(* the router's write lock - checks that none of its host/path pairs is    *)
(* owned by a different service and puts itself into the table; then it    *)
(* drains and disposes the load balancer it replaced.  A deploy refused at *)
(* that point disposes its own new load balancer (repair F2).              *)
(*                                                                         *)
(* Variants (negative controls):                                           *)
(*   AtomicInstall = FALSE     availability is checked and the table       *)
(*                             written in two separate critical sections   *)
(*   DisposeOnConflict = FALSE the code before repair F2                   *)
(***************************************************************************)
EXTENDS Integers, FiniteSets, TLC

CONSTANTS Cmds,      \* command ids
          Kind,      \* Kind[c] \in {"deploy", "remove"}
          Name,      \* Name[c]: service name
          Bind,      \* Bind[c]: set of host/path pairs a deploy claims
          MayFail,   \* may new targets fail to become healthy?
          AtomicInstall, DisposeOnConflict

Names == {Name[c] : c \in Cmds}
None == "-"          \* no load balancer / service absent

VARIABLES tbl,       \* tbl[n]: load balancer (= id of the deploy that created it) of the installed service n, or None
          own,       \* own[n]: host/path pairs of the installed service n
          pc,        \* pc[c]: new, wait, healthy, checked, conflict, installed, ret, done
          base,      \* base[c]: load balancer the copy made by c shares, i.e. what c will replace
          probing,   \* load balancers whose targets are being probed
          res,       \* res[c]
          race       \* race[c]: another command for the same service was in progress while c was (known finding)
vars == <<tbl, own, pc, base, probing, res, race>>

InProg(c) == pc[c] \notin {"new", "done"}

Init == /\ tbl = [n \in Names |-> None] /\ own = [n \in Names |-> {}]
        /\ pc = [c \in Cmds |-> "new"] /\ base = [c \in Cmds |-> None]
        /\ probing = {} /\ res = [c \in Cmds |-> ""] /\ race = [c \in Cmds |-> FALSE]

Racing(c) == {d \in Cmds \ {c} : InProg(d) /\ Name[d] = Name[c]}
MarkRace(c) == [d \in Cmds |-> race[d] \/ (d = c /\ Racing(c) # {}) \/ (d \in Racing(c))]

Call(c) ==                                      \* findOrCreateService + NewLoadBalancer (probes start); hook dep_started
  /\ pc[c] = "new" /\ Kind[c] = "deploy"
  /\ base' = [base EXCEPT ![c] = tbl[Name[c]]]
  /\ probing' = probing \cup {c}
  /\ pc' = [pc EXCEPT ![c] = "wait"]
  /\ race' = MarkRace(c)
  /\ UNCHANGED <<tbl, own, res>>

WaitOk(c) == /\ pc[c] = "wait"                  \* hook dep_healthy
             /\ pc' = [pc EXCEPT ![c] = "healthy"]
             /\ UNCHANGED <<tbl, own, base, probing, res, race>>

WaitFail(c) == /\ pc[c] = "wait" /\ MayFail     \* deploy timeout; lb.Dispose
               /\ probing' = probing \ {c}
               /\ res' = [res EXCEPT ![c] = "unhealthy"]
               /\ pc' = [pc EXCEPT ![c] = "ret"]
               /\ UNCHANGED <<tbl, own, base, race>>

Conflict(c) == \E n \in Names \ {Name[c]} : tbl[n] # None /\ own[n] \cap Bind[c] # {}

Install(c) ==                                   \* installService under the router's write lock
  /\ pc[c] = "healthy" /\ AtomicInstall
  /\ IF Conflict(c)
     THEN /\ res' = [res EXCEPT ![c] = "host_in_use"]
          /\ pc' = [pc EXCEPT ![c] = "conflict"]
          /\ UNCHANGED <<tbl, own>>
     ELSE /\ tbl' = [tbl EXCEPT ![Name[c]] = c]
          /\ own' = [own EXCEPT ![Name[c]] = Bind[c]]
          /\ pc' = [pc EXCEPT ![c] = "installed"]
          /\ UNCHANGED res
  /\ UNCHANGED <<base, probing, race>>

Check(c) ==                                     \* variant: availability checked in a critical section of its own
  /\ pc[c] = "healthy" /\ ~AtomicInstall
  /\ IF Conflict(c)
     THEN res' = [res EXCEPT ![c] = "host_in_use"] /\ pc' = [pc EXCEPT ![c] = "conflict"]
     ELSE pc' = [pc EXCEPT ![c] = "checked"] /\ UNCHANGED res
  /\ UNCHANGED <<tbl, own, base, probing, race>>

Set(c) == /\ pc[c] = "checked"
          /\ tbl' = [tbl EXCEPT ![Name[c]] = c]
          /\ own' = [own EXCEPT ![Name[c]] = Bind[c]]
          /\ pc' = [pc EXCEPT ![c] = "installed"]
          /\ UNCHANGED <<base, probing, res, race>>

ConflictDispose(c) ==                           \* the refused deploy stops probing its new targets
  /\ pc[c] = "conflict"
  /\ probing' = IF DisposeOnConflict THEN probing \ {c} ELSE probing
  /\ pc' = [pc EXCEPT ![c] = "ret"]
  /\ UNCHANGED <<tbl, own, base, res, race>>

DrainDispose(c) ==                              \* replaced.DrainAll; replaced.Dispose
  /\ pc[c] = "installed"
  /\ probing' = probing \ {base[c]}
  /\ res' = [res EXCEPT ![c] = "ok"]
  /\ pc' = [pc EXCEPT ![c] = "ret"]
  /\ UNCHANGED <<tbl, own, base, race>>

Remove(c) ==                                    \* RemoveService: under the router's write lock the service is disposed
  /\ pc[c] = "new" /\ Kind[c] = "remove"         \* (probe loops closed, no drain) and deleted from the table
  /\ IF tbl[Name[c]] = None
     THEN /\ res' = [res EXCEPT ![c] = "not_found"]
          /\ UNCHANGED <<tbl, own, base, probing>>
     ELSE /\ base' = [base EXCEPT ![c] = tbl[Name[c]]]
          /\ probing' = probing \ {tbl[Name[c]]}
          /\ tbl' = [tbl EXCEPT ![Name[c]] = None]
          /\ own' = [own EXCEPT ![Name[c]] = {}]
          /\ res' = [res EXCEPT ![c] = "ok"]
  /\ pc' = [pc EXCEPT ![c] = "ret"]
  /\ race' = MarkRace(c)

Return(c) == /\ pc[c] = "ret"
             /\ pc' = [pc EXCEPT ![c] = "done"]
             /\ UNCHANGED <<tbl, own, base, probing, res, race>>

Finished == (\A c \in Cmds : pc[c] = "done") /\ UNCHANGED vars

Next == \/ \E c \in Cmds : Call(c) \/ WaitOk(c) \/ WaitFail(c) \/ Install(c) \/ Check(c) \/ Set(c) \/ ConflictDispose(c)
                           \/ DrainDispose(c) \/ Remove(c) \/ Return(c)
        \/ Finished
Spec == Init /\ [][Next]_vars

\* C05: no two installed services own the same pair
O_Ownership == \A n, m \in Names : (n # m /\ tbl[n] # None /\ tbl[m] # None) => own[n] \cap own[m] = {}
\* C06 / C17: a command that has failed leaves no probe loop behind
O_FailedLeavesNothing == \A c \in Cmds : (pc[c] = "done" /\ res[c] \notin {"ok", "not_found"}) => c \notin probing
\* C17: once everything has returned only installed load balancers are probed
\* (commands that raced another command for the same service are the known finding KF-same-service-race)
O_NoLeak == (\A c \in Cmds : ~InProg(c)) =>
              \A l \in probing : (\E n \in Names : tbl[n] = l) \/ race[l]
\* C05: a refusal is justified
A_RefusalJustified == [][\A c \in Cmds : (res[c] = "" /\ res'[c] = "host_in_use") => Conflict(c)]_vars
\* C06: a step that makes a command fail changes no table entry
A_FailChangesNothing == [][(\E c \in Cmds : res[c] = "" /\ res'[c] \notin {"", "ok"}) => (tbl' = tbl /\ own' = own)]_vars
\* C05: of deploys racing for the same pair one wins (no deploy is refused because of a service that is not installed in the end,
\* unless that service was removed or replaced meanwhile)
O_SomeoneWins == (\A c \in Cmds : pc[c] = "done") =>
                   \A c \in Cmds : res[c] = "host_in_use" =>
                     \E d \in Cmds \ {c} : Kind[d] = "deploy" /\ Name[d] # Name[c] /\ Bind[d] \cap Bind[c] # {} /\ res[d] = "ok"
=============================================================================
