#!/usr/bin/env python3
"""Entry point of every registered check.

  python3 tools/check.py Cxx [--tier quick|thorough] [--replay <schedule.json>]

exit 0: the property held on everything explored (known findings are printed)
exit 1: 'VIOLATION property=<id> replay=<path>' for a violation not listed in KNOWN_FINDINGS.txt
exit 2: inconclusive (build failure, time-out, trace not accepted, model drift, vacuity) - never a violation
"""
import argparse, json, os, shutil, sys, time, glob, collections

sys.path.insert(0, os.path.dirname(os.path.abspath(__file__)))
import vlib
from vlib import Inconclusive

# ---- concurrency families: executor + ObsTrace ---------------------------------

CONC = {
    "C01": dict(families=["deploy"], invs=["C01_a", "C01_b", "C01_c"], mc=["MC_Deploy"]),
    "C02": dict(families=["deploy"], invs=["C02"], mc=["MC_Deploy"]),
    "C03": dict(families=["deploy"], invs=["C03_a", "C03_b", "C03_c"], mc=["MC_Deploy"]),
    "C17": dict(families=["deploy"], invs=["C17_a", "C17_b", "C17_c"], mc=["MC_Deploy"]),
}

SIZES = {"quick": 240, "thorough": 4000}


def run_conc(prop, tier, seed, replay=None):
    t0 = time.time()
    spec = CONC[prop]
    known = vlib.load_known()
    binary = vlib.build_harness()
    traces, plan_dirs, n_scn, events = [], {}, 0, collections.Counter()
    if replay:
        pdir = os.path.join(vlib.scratch(), "replay-plans")
        os.makedirs(pdir, exist_ok=True)
        obj = json.load(open(replay))
        plan = obj["plan"]
        plan["sched"] = "replay"
        json.dump(plan, open(os.path.join(pdir, "0.json"), "w"))
        outs = vlib.run_executor(binary, "plans", 1, seed, tier, plans_dir=pdir)
    else:
        outs = []
        for fam in spec["families"]:
            outs += vlib.run_executor(binary, fam, SIZES[tier], seed, tier)
    for out in outs:
        tf = os.path.join(out, "obs.ndjson")
        vlib.filter_trace(os.path.join(out, "trace.ndjson"), tf)
        traces.append(tf)
        s = json.load(open(os.path.join(out, "summary.json")))
        n_scn += s["scenarios"]
        events.update(s["events"])
    res = vlib.validate_traces(traces)
    if replay:
        os.makedirs(os.path.join(vlib.VERIF, "out", prop), exist_ok=True)
        shutil.copy(os.path.join(outs[0], "trace.ndjson"), os.path.join(vlib.VERIF, "out", prop, "replay.trace.ndjson"))

    harness = [v for v in res["violations"] if v["inv"] == "HARNESS"]
    if harness:
        raise Inconclusive("harness-level problem in trace: %r" % harness[:3])

    mine = [v for v in res["violations"] if v["inv"] in spec["invs"]]
    others = collections.Counter(v["inv"] for v in res["violations"] if v["inv"] not in spec["invs"])
    listed, unlisted = collections.OrderedDict(), []
    for v in mine:
        k = vlib.match_known(prop, v, known)
        if k:
            listed.setdefault(k["id"], [k, 0])[1] += 1
        else:
            unlisted.append(v)
    for kid, (k, cnt) in listed.items():
        print("KNOWN-FINDING: %s (%d instance(s) this run)" % (k["text"].split(" ", 1)[1], cnt))
    rc = 0
    if not replay:
        shutil.rmtree(os.path.join(vlib.VERIF, "out", prop), ignore_errors=True)
    for i, v in enumerate(unlisted[:20]):
        out = os.path.dirname(v["trace"])
        pf = os.path.join(out, "plans", "%d.json" % v["scn"])
        plan = json.load(open(pf)) if os.path.exists(pf) else None
        path = vlib.save_replay(prop, i, {"property": prop, "violation": {k: v[k] for k in v if k != "trace"}, "plan": plan})
        print("VIOLATION property=%s replay=%s" % (prop, path))
        print("  %s subject=%s scenario=%s: %s" % (v["inv"], v["subj"], v["scn"], v["detail"]))
        rc = 1
    if len(unlisted) > 20:
        print("  ... and %d more violation instance(s)" % (len(unlisted) - 20))

    nontrivial = sum(res["coverage"].get(i, 0) for i in spec["invs"])
    samples = []
    for out in outs[:1]:
        with open(os.path.join(out, "obs.ndjson")) as f:
            for j, line in enumerate(f):
                if j >= 12:
                    break
                samples.append(json.loads(line))
    cov = {
        "traces_validated_against_impl": n_scn,
        "evaluations": n_scn,
        "distinct_nontrivial": nontrivial,
        "rule": "one evaluation = one scenario executed on the real proxy under the controller and validated by TLC against "
                "spec/ObsTrace.tla; distinct_nontrivial = sum over this property's invariants of the number of distinct "
                "scenarios in which the invariant's antecedent was satisfied at least once (counted by the trace spec itself)",
        "antecedent_hits": {i: res["coverage"].get(i, 0) for i in sorted(res["coverage"])},
        "trace_events_validated": res["lines"],
        "states": max(1, res["states"]),
        "transitions": max(1, res["lines"]),
        "events_recorded": dict(events),
        "samples": samples,
        "known_findings_printed": list(listed.keys()),
        "other_invariants_violated_this_run": dict(others),
        "families": spec["families"],
        "exhaustive": False,
    }
    vlib.write_evidence(prop, tier, seed, "model_checking", cov, time.time() - t0, len(unlisted),
                        ["TLC/SANY", "testing/synctest virtual clock", "net.Pipe in-memory network", "harness recorder"])
    if nontrivial == 0 and not replay:
        raise Inconclusive("vacuous run: no scenario exercised the antecedent of any invariant of %s" % prop)
    return rc


def main():
    ap = argparse.ArgumentParser()
    ap.add_argument("prop")
    ap.add_argument("--tier", default=os.environ.get("VERIF_TIER", "quick"))
    ap.add_argument("--replay")
    ap.add_argument("--no-evidence", action="store_true", help="do not rewrite evidence/<id>.json (used when checking seeded changes)")
    a = ap.parse_args()
    if a.no_evidence:
        vlib.write_evidence = lambda *x, **k: None
    seed = int(os.environ.get("VERIF_SEED", "1"))
    try:
        if a.prop in CONC:
            rc = run_conc(a.prop, a.tier, seed, a.replay)
        else:
            print("unknown property", a.prop)
            rc = 2
    except vlib.ProxyPanic as e:
        path = vlib.save_replay(a.prop, 0, {"property": a.prop, "violation": {"inv": "C18_panic", "detail": e.what}, "plan": e.plan})
        print("VIOLATION property=%s replay=%s" % (a.prop, path))
        print("  the proxy panicked (a panic outside a command handler kills the whole process): %s" % e.what)
        print(e.text[-1500:])
        rc = 1
    except Inconclusive as e:
        print("INCONCLUSIVE property=%s: %s" % (a.prop, e))
        rc = 2
    sys.exit(rc)


if __name__ == "__main__":
    main()
