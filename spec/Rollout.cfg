SPECIFICATION Spec
CONSTANTS
  Values = {"v1", "v2", "v3"}
  Pcts = {0, 1, 50, 99, 100}
INVARIANTS
  Monotone
  Total
  OptIn
  AllowWins
CHECK_DEADLOCK FALSE
