SPECIFICATION Spec
CONSTANTS
  t1 = t1
  t2 = t2
  r1 = r1
  r2 = r2
  r3 = r3
  NoTarget = NoTarget
  Cmds <- CmdsE
  Group <- GrpE
  Reqs = {r1, r2}
  Kinds = {"plain", "forever"}
  MaxProbes = 1
  AllowBad = FALSE
  SignalAfterNotify = TRUE
  Exempt = TRUE
SYMMETRY Sym2
INVARIANTS
  TypeOK
  D_C02
  D_C03_a
  D_C03_b
  D_C03_p
  D_C07_a
  D_C07_b
  D_C07_f
  D_C08
  D_C17_c
CHECK_DEADLOCK TRUE
