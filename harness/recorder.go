package harness

import (
	"bufio"
	"encoding/json"
	"io"
	"sort"
	"sync"
	"time"
)

// Recorder writes one ndjson line per event. Every event gets a global
// sequence number taken under the recorder's lock and the virtual time (ms
// since the scenario began).
type Recorder struct {
	mu    sync.Mutex
	w     *bufio.Writer
	seq   int
	start time.Time
	scn   int
	// counts per event name, for evidence
	Counts map[string]int
	// last events of the current scenario (for diagnostics)
	mem []map[string]any
}

func NewRecorder(w io.Writer) *Recorder {
	return &Recorder{w: bufio.NewWriterSize(w, 1<<20), Counts: map[string]int{}}
}

func (r *Recorder) Begin(scn int, start time.Time) {
	r.mu.Lock()
	defer r.mu.Unlock()
	r.scn = scn
	r.start = start
	r.mem = r.mem[:0]
}

type KV map[string]any

func (r *Recorder) Emit(ev string, kv KV) {
	r.mu.Lock()
	defer r.mu.Unlock()
	r.seq++
	m := map[string]any{"ev": ev, "seq": r.seq, "scn": r.scn, "t": int(time.Since(r.start) / time.Millisecond)}
	for k, v := range kv {
		m[k] = v
	}
	r.Counts[ev]++
	r.mem = append(r.mem, m)
	// deterministic key order
	keys := make([]string, 0, len(m))
	for k := range m {
		keys = append(keys, k)
	}
	sort.Strings(keys)
	r.w.WriteByte('{')
	for i, k := range keys {
		if i > 0 {
			r.w.WriteByte(',')
		}
		kb, _ := json.Marshal(k)
		vb, err := json.Marshal(m[k])
		if err != nil {
			vb, _ = json.Marshal(err.Error())
		}
		r.w.Write(kb)
		r.w.WriteByte(':')
		r.w.Write(vb)
	}
	r.w.WriteString("}\n")
}

func (r *Recorder) Flush() {
	r.mu.Lock()
	defer r.mu.Unlock()
	r.w.Flush()
}

func (r *Recorder) Now() int {
	return int(time.Since(r.start) / time.Millisecond)
}
