"""Plans for the sequential families from TLC behaviours of spec/MC_Routing.tla.
The index tables mirror HostSets / PathSets / TlsOpts of that module."""
import json, random, re, itertools

HOSTSETS = [[""], ["a.d"], ["*.d"], ["b.a.d"], ["a.d", "b.a.d"], ["*.d", "a.d"], ["d"], ["::1", "[::1]"]]
PATHSETS = [["/"], ["/api"], ["/apiary"], ["/api/v1"], ["/", "/api"], ["/api", "/api/v1"]]
TLSOPTS = [dict(tls=False, redirect=True, acme=False), dict(tls=True, redirect=True, acme=False),
           dict(tls=True, redirect=False, acme=False), dict(tls=True, redirect=True, acme=True)]
REQ_HOSTS = ["a.d", "a.d:8080", "b.a.d", "c.d", "c.b.a.d", "d", "x.y", "localhost", "[::1]:80", "[::1]", "b.a.d:443"]
REQ_PATHS = ["/", "/api", "/api/", "/apiary", "/api/v1", "/api/v1/x", "/api//x", "//api", "/x", "/apiv1", "/api/a%2Fb", "/x%20y/z"]
SNI = ["a.d", "b.a.d", "c.d", "d", "x.y", "c.b.a.d"]

LABEL = re.compile(r"<(DoDeploy|DoRemove)\(([^)]*)\) line")


def steps_from_text(txt):
    steps = []
    for m in LABEL.finditer(txt):
        a = [x.strip().strip('"') for x in m.group(2).split(",")]
        if m.group(1) == "DoDeploy":
            hi, pi, ti = int(a[1]), int(a[2]), int(a[3])
            hosts = [h for h in HOSTSETS[hi - 1] if h != ""]
            st = dict(op="deploy", svc=a[0], hosts=hosts, paths=PATHSETS[pi - 1], strip=True, **TLSOPTS[ti - 1])
            steps.append(st)
        else:
            steps.append(dict(op="remove", svc=a[0]))
    return steps


def plan(steps, note=""):
    return dict(steps=steps, req_hosts=REQ_HOSTS, req_paths=REQ_PATHS, sni=SNI, note=note)


def with_restarts(steps, rng, k=1):
    out = list(steps)
    for _ in range(k):
        out.insert(rng.randint(1, len(out)), dict(op="restart"))
    return out


def permutations_same_table(steps, rng, limit=3):
    """Other orders of the successful deploys of a history (same resulting set when they do not conflict)."""
    deploys = [s for s in steps if s["op"] == "deploy"]
    if len(deploys) < 2 or len(deploys) > 4:
        return []
    perms = list(itertools.permutations(deploys))[1:]
    rng.shuffle(perms)
    return [list(p) for p in perms[:limit]]


# ---- MC_Ops.tla: all command kinds and injected faults ------------------------------------------------
OPS_HOSTSETS = [[""], ["a.d"], ["*.d"], ["b.a.d"], ["a.d", "b.a.d"]]
OPS_PATHSETS = [["/"], ["/api"], ["/", "/api"]]
OPS_TLSOPTS = [dict(tls=False, redirect=True, acme=False), dict(tls=True, redirect=False, acme=False), dict(tls=True, redirect=True, acme=True)]
OPS_FAULTS = ["none", "invalid_target", "unhealthy", "cert", "error_pages"]
OPS_MSGS = ["", "back soon", "closed <b>for</b> maintenance & repairs"]
OPS_LABEL = re.compile(r"<(Op\w+)(?:\(([^)]*)\))? line")


def ops_steps_from_text(txt, rng=None):
    steps = _ops_steps(txt)
    if rng is not None:
        for st in steps:
            if st["op"] == "deploy":
                st["topt"] = rng.choice([0, 0, 1, 2])            # target-option variant of this deploy
                if st.get("fault") == "none" and rng.random() < 0.15:
                    st["fault"] = "state_unwritable"               # the state file cannot be written: the command still succeeds
    return steps


def _ops_steps(txt):
    steps = []
    for m in OPS_LABEL.finditer(txt):
        name = m.group(1)
        a = [x.strip().strip('"') for x in m.group(2).split(",")] if m.group(2) else []
        if name == "OpDeploy":
            hi, pi, ti, fi = (int(x) for x in a[1:5])
            hosts = [h for h in OPS_HOSTSETS[hi - 1] if h != ""]
            steps.append(dict(op="deploy", svc=a[0], hosts=hosts, paths=OPS_PATHSETS[pi - 1], strip=True, fault=OPS_FAULTS[fi - 1], **OPS_TLSOPTS[ti - 1]))
        elif name == "OpRolloutDeploy":
            steps.append(dict(op="rollout_deploy", svc=a[0], fault=OPS_FAULTS[int(a[1]) - 1]))
        elif name == "OpRolloutSet":
            steps.append(dict(op="rollout_set", svc=a[0], arg=int(a[1])))
        elif name == "OpStop":
            steps.append(dict(op="stop", svc=a[0], msg=OPS_MSGS[int(a[1]) - 1]))
        elif name in ("OpRolloutStop", "OpPause", "OpResume", "OpRemove"):
            steps.append(dict(op={"OpRolloutStop": "rollout_stop", "OpPause": "pause", "OpResume": "resume", "OpRemove": "remove"}[name], svc=a[0]))
        elif name == "OpRestart":
            steps.append(dict(op="restart"))
    return steps


def regression_plans():
    """Hand-written histories for defects that were repaired: replayed on every run."""
    dep = lambda s, hosts, paths, **kw: dict(dict(op="deploy", svc=s, hosts=hosts, paths=paths, strip=True, tls=False, redirect=True, acme=False, fault="none"), **kw)
    return [
        plan([dep("s1", ["a.d"], ["/"]), dict(op="pause", svc="s1"), dict(op="restart"), dict(op="resume", svc="s1")], note="restored paused service resumes"),
        plan([dep("s1", ["a.d"], ["/"]), dict(op="pause", svc="s1"), dict(op="restart"), dict(op="stop", svc="s1", msg="back soon"), dict(op="resume", svc="s1")], note="restored paused service stops"),
        plan([dep("s1", ["a.d"], ["/"]), dict(op="restart"), dict(op="rollout_set", svc="s1", arg=2), dict(op="rollout_deploy", svc="s1"), dict(op="rollout_set", svc="s1", arg=2),
              dict(op="restart"), dict(op="rollout_stop", svc="s1"), dict(op="restart")], note="split needs targets after a restart; split and stop survive restarts"),
        plan([dep("s1", ["*.d"], ["/"], tls=True, redirect=False), dep("s2", ["*.d"], ["/api"]), dict(op="restart"), dep("s3", ["a.d"], ["/"])], note="wildcard root with static certificate + sub-path service restores"),
        plan([dep("s1", ["a.d"], ["/"]), dict(op="stop", svc="s1", msg="closed <b>for</b> maintenance & repairs"), dict(op="restart"), dep("s1", ["a.d"], ["/"]), dict(op="resume", svc="s1")], note="stopped state and message survive restart and redeploy"),
    ]


def pairwise_restart_plans():
    """Every ordered pair of commands on a deployed service (with and without rollout targets), followed by a restart
    and a last command: the systematic small histories of C11 / C10 / C06."""
    dep = lambda s, hosts, paths, **kw: dict(dict(op="deploy", svc=s, hosts=hosts, paths=paths, strip=True, tls=False, redirect=True, acme=False, fault="none"), **kw)
    cmds = [dict(op="pause", svc="s1"), dict(op="stop", svc="s1", msg="back soon"), dict(op="stop", svc="s1", msg="closed <b>for</b> maintenance & repairs"),
            dict(op="resume", svc="s1"), dict(op="rollout_deploy", svc="s1"), dict(op="rollout_set", svc="s1", arg=1), dict(op="rollout_set", svc="s1", arg=2),
            dict(op="rollout_stop", svc="s1"), dep("s1", ["a.d", "b.a.d"], ["/", "/api"], topt=1), dep("s1", ["a.d"], ["/"], fault="unhealthy", topt=2),
            dict(op="remove", svc="s1")]
    out = []
    for pre in ([], [dict(op="rollout_deploy", svc="s1"), dict(op="rollout_set", svc="s1", arg=2)]):
        for x in cmds:
            for y in cmds:
                steps = [dep("s1", ["a.d"], ["/"])] + [dict(p) for p in pre] + [dict(x), dict(y), dict(op="restart"), dict(op="resume", svc="s1")]
                p = plan(steps, note="pair %s,%s + restart" % (x["op"], y["op"]))
                p.update(req_hosts=["a.d", "b.a.d", "x.y"], req_paths=["/", "/api/x"], sni=["a.d"])   # a small matrix: these plans are many
                out.append(p)
    return out
