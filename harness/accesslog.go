package harness

import (
	"bufio"
	"bytes"
	"context"
	"encoding/json"
	"fmt"
	"math/rand"
	"net/http"
	"os"
	"path/filepath"
	"strings"
	"testing"
	"testing/synctest"
	"time"
)

// RunAccessLog: C19. Requests of every outcome class go through the full chain; the JSON access log is captured and
// the record(s) of each request (joined on the request id) are compared with what client and target observed.
func RunAccessLog(t *testing.T, scn int, seed int64, n int, rec *Recorder, dir, cert, key string) {
	os.Setenv("TMPDIR", dir)
	synctest.Test(t, func(t *testing.T) {
		rng := rand.New(rand.NewSource(seed))
		plan := &Plan{Family: "accesslog", Sched: "free", Targets: map[string]TargetScript{}}
		for _, tn := range []string{"l1", "l2", "l3", "l4", "l5"} {
			plan.Targets[tn] = TargetScript{Then: ProbeOutcome{Class: "ok"}}
		}
		w := &World{t: t, plan: plan, rec: rec, dir: dir}
		w.setup(scn)
		w.rec.Emit("reset", KV{"family": "accesslog", "urgent": true, "seed": seed, "note": ""})
		logReq := []string{"X-Custom", "cache-control"}
		logResp := []string{"X-Multi", "content-type"}
		w.execCmd(Cmd{ID: "c1", Kind: "deploy", Svc: "L1", Hosts: []string{"l1.test"}, Targets: []string{"l1"}, DeployTimeoutMs: 2000, DrainTimeoutMs: 500, LogReq: logReq, LogResp: logResp})
		w.execCmd(Cmd{ID: "c2", Kind: "deploy", Svc: "L2", Hosts: []string{"l2.test"}, Targets: []string{"l2"}, DeployTimeoutMs: 2000, DrainTimeoutMs: 500})
		w.execCmd(Cmd{ID: "c3", Kind: "deploy", Svc: "L3", Hosts: []string{"l3.test"}, Targets: []string{"l3"}, DeployTimeoutMs: 2000, DrainTimeoutMs: 500})
		w.execCmd(Cmd{ID: "c4", Kind: "deploy", Svc: "L4", Hosts: []string{"l4.test"}, Targets: []string{"l4"}, TLS: true, TLSRedirect: true, CertPath: cert, KeyPath: key, DeployTimeoutMs: 2000, DrainTimeoutMs: 500})
		w.execCmd(Cmd{ID: "c5", Kind: "deploy", Svc: "L5", Hosts: []string{"l5.test"}, Targets: []string{"l5"}, BufReq: true, BufResp: true, MaxMem: 512, MaxReqBody: 2000, MaxRespBody: 2000, DeployTimeoutMs: 2000, DrainTimeoutMs: 500, LogReq: logReq, LogResp: logResp})
		newRawTarget(w, "raw6")
		w.execCmd(Cmd{ID: "c6", Kind: "deploy", Svc: "L6", Hosts: []string{"l6.test"}, Targets: []string{"raw6"}, RespTimeoutMs: 700, DeployTimeoutMs: 2000, DrainTimeoutMs: 500})
		w.execCmd(Cmd{ID: "c7", Kind: "stop", Svc: "L2", DrainTimeoutMs: 500, Msg: "closed"})
		w.execCmd(Cmd{ID: "c8", Kind: "pause", Svc: "L3", DrainTimeoutMs: 500, MaxPauseMs: 400})
		w.logBuf.Take()

		classes := []string{"served", "served", "served", "early", "cut", "notfound", "stopped", "pausedout", "redirect", "tlsrefused", "fault502", "fault504", "overflow413", "overflow500", "abort", "upgrade"}
		for i := 0; i < n; i++ {
			class := classes[rng.Intn(len(classes))]
			id := fmt.Sprintf("g%d", i)
			path := []string{"/", "/a/b", "/x%20y", "/q"}[rng.Intn(4)]
			query := []string{"", "a=1&b=2", "p=a;b"}[rng.Intn(3)]
			rq := rawReq{id: id, method: []string{"GET", "POST", "PUT"}[rng.Intn(3)], path: path, query: query}
			custom := fmt.Sprintf("v-%d", rng.Intn(1000))
			rq.headers = [][2]string{{"X-Request-Id", id}, {"X-Custom", custom}, {"Cache-Control", "no-cache"}}
			svc, wantLogHdrs := "", false
			respLen := []int{0, 1, 700, 1500}[rng.Intn(4)]
			contactedTarget := ""
			switch class {
			case "served":
				rq.host, svc, wantLogHdrs, contactedTarget = "l1.test", "L1", true, "l1"
				rq.headers = append(rq.headers, [2]string{"X-Verif-Echo", id}, [2]string{"X-Verif-Resp", fmt.Sprintf("%d;%d;multi", []int{200, 201, 404, 500}[rng.Intn(4)], respLen)})
			case "early":
				// the target sends an informational 103 before its final status
				rq.host, svc, wantLogHdrs, contactedTarget = "l1.test", "L1", false, "l1"
				rq.headers = append(rq.headers, [2]string{"X-Verif-Echo", id}, [2]string{"X-Verif-Resp", fmt.Sprintf("%d;%d;early", []int{200, 201}[rng.Intn(2)], respLen)})
			case "cut":
				// the target dies in the middle of the body: the response is cut short, but it is still logged once
				rq.host, svc, contactedTarget = "l6.test", "L6", "raw6"
				rq.headers = append(rq.headers, [2]string{"X-Verif-Fault", []string{"midbody:0", "midchunk:0"}[rng.Intn(2)]})
			case "notfound":
				rq.host = "nobody.test"
			case "stopped":
				rq.host, svc = "l2.test", "L2"
			case "pausedout":
				rq.host, svc = "l3.test", "L3"
			case "redirect":
				rq.host, svc = "l4.test", "L4"
			case "tlsrefused":
				rq.host, svc, rq.https = "l1.test", "L1", true
			case "fault502":
				rq.host, svc, contactedTarget = "l6.test", "L6", "raw6"
				rq.headers = append(rq.headers, [2]string{"X-Verif-Fault", []string{"reset0:0", "garbage:0", "midhdr:0"}[rng.Intn(3)]})
			case "fault504":
				rq.host, svc, contactedTarget = "l6.test", "L6", "raw6"
				rq.headers = append(rq.headers, [2]string{"X-Verif-Fault", "silence:900"})
			case "overflow413":
				rq.host, svc, wantLogHdrs = "l5.test", "L5", true
				rq.method = "POST"
				rq.body = patternBody(2500, 1)
			case "overflow500":
				rq.host, svc, wantLogHdrs, contactedTarget = "l5.test", "L5", true, "l5"
				rq.headers = append(rq.headers, [2]string{"X-Verif-Echo", id}, [2]string{"X-Verif-Resp", "200;2600;multi"})
			case "abort":
				rq.host, svc, contactedTarget = "l1.test", "L1", "l1"
				rq.headers = append(rq.headers, [2]string{"X-Verif-Rid", id}, [2]string{"X-Verif-Kind", "slow"}, [2]string{"X-Verif-Hold", "600"})
			case "upgrade":
				rq.host, svc, contactedTarget = "l1.test", "L1", "l1"
			}
			if (rq.method == "POST" || rq.method == "PUT") && rq.body == nil && class != "abort" && class != "upgrade" {
				rq.body = patternBody(rng.Intn(300), 2)
			}
			seenStatus, seenBytes := 0, 0
			var respHdr http.Header
			switch class {
			case "abort":
				conn, err := w.net.Dialer("client")(context.Background(), "mem", proxyHTTP)
				if err == nil {
					uri := rq.path
					if rq.query != "" {
						uri += "?" + rq.query
					}
					var b bytes.Buffer
					fmt.Fprintf(&b, "GET %s HTTP/1.1\r\nHost: %s\r\n", uri, rq.host)
					for _, kv := range rq.headers {
						fmt.Fprintf(&b, "%s: %s\r\n", kv[0], kv[1])
					}
					b.WriteString("\r\n")
					conn.Write(b.Bytes())
					time.Sleep(150 * time.Millisecond)
					conn.Close()
				}
				rq.method = "GET"
				time.Sleep(time.Second)
			case "upgrade":
				conn, err := w.net.Dialer("client")(context.Background(), "mem", proxyHTTP)
				if err == nil {
					uri := rq.path
					if rq.query != "" {
						uri += "?" + rq.query
					}
					fmt.Fprintf(conn, "GET %s HTTP/1.1\r\nHost: %s\r\nConnection: Upgrade\r\nUpgrade: websocket\r\nX-Request-Id: %s\r\nX-Verif-Rid: %s\r\nX-Verif-Kind: upgrade\r\n\r\n", uri, rq.host, id, id)
					br := bufio.NewReader(conn)
					if resp, err := http.ReadResponse(br, nil); err == nil {
						seenStatus = resp.StatusCode
					}
					time.Sleep(100 * time.Millisecond)
					conn.Close()
				}
				rq.method = "GET"
				time.Sleep(200 * time.Millisecond)
			default:
				resp := w.rawDo(rq)
				seenStatus, seenBytes, respHdr = resp.status, len(resp.body), resp.header
			}
			synctest.Wait()
			time.Sleep(5 * time.Millisecond)
			synctest.Wait()
			// the access-log records of this request
			var recs []map[string]any
			for _, line := range bytes.Split(w.logBuf.Take(), []byte("\n")) {
				var m map[string]any
				if json.Unmarshal(line, &m) == nil && m["msg"] == "Request" && m["request_id"] == id {
					recs = append(recs, m)
				}
			}
			kv := KV{"id": id, "class": class, "records": len(recs), "seen_status": seenStatus, "seen_bytes": seenBytes, "method": rq.method, "host": rq.host,
				"path": strings.ReplaceAll(path, "%20", " "), "query": query, "svc": svc, "contacted": contactedTarget,
				"log_status": 0, "log_bytes": 0, "log_method": "", "log_host": "", "log_path": "", "log_query": "", "log_rid": "", "log_service": "", "log_target": "",
				"hdrs_ok": true, "hdr_diff": ""}
			if len(recs) == 1 {
				m := recs[0]
				num := func(k string) int { f, _ := m[k].(float64); return int(f) }
				str := func(k string) string { s, _ := m[k].(string); return s }
				kv["log_status"], kv["log_bytes"] = num("status"), num("resp_content_length")
				kv["log_method"], kv["log_host"], kv["log_path"], kv["log_query"], kv["log_rid"] = str("method"), str("host"), str("path"), str("query"), str("request_id")
				kv["log_service"], kv["log_target"] = str("service"), str("target")
				if wantLogHdrs && (class == "served" || class == "overflow500") {
					diff := ""
					if str("req_x_custom") != custom {
						diff += fmt.Sprintf("req_x_custom=%q sent %q; ", str("req_x_custom"), custom)
					}
					if str("req_cache_control") != "no-cache" {
						diff += fmt.Sprintf("req_cache_control=%q; ", str("req_cache_control"))
					}
					if class == "served" && respHdr != nil {
						if str("resp_x_multi") != strings.Join(respHdr["X-Multi"], ",") {
							diff += fmt.Sprintf("resp_x_multi=%q client got %q; ", str("resp_x_multi"), respHdr["X-Multi"])
						}
						if str("resp_content_type") != respHdr.Get("Content-Type") {
							diff += fmt.Sprintf("resp_content_type=%q client got %q; ", str("resp_content_type"), respHdr.Get("Content-Type"))
						}
					}
					kv["hdrs_ok"], kv["hdr_diff"] = diff == "", diff
				}
			}
			w.rec.Emit("log_obs", kv)
		}
		time.Sleep(3 * time.Second)
		synctest.Wait()
		w.rec.Emit("end", nil)
		w.teardown()
	})
}

var _ = filepath.Join
