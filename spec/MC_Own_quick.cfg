SPECIFICATION Spec
CONSTANTS
  Cmds <- C3
  Kind <- Kind3
  Name <- Name3
  Bind <- Bind3
  MayFail = TRUE
  AtomicInstall = TRUE
  CheckOnRollout = TRUE
  DisposeOnConflict = TRUE
INVARIANTS
  O_Ownership
  O_FailedLeavesNothing
  O_NoLeak
  O_SomeoneWins
PROPERTIES
  A_RefusalJustified
  A_FailChangesNothing
CHECK_DEADLOCK TRUE
