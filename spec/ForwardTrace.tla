--------------------------- MODULE ForwardTrace ---------------------------
(* Validates what targets received (and clients got back) against Forward.tla. *)
EXTENDS Forward, TLC, Json, IOUtils

Log == ndJsonDeserialize(IOEnv.VERIF_TRACE)

VARIABLES l, rids, viol, cov
tvars == <<l, rids, viol, cov>>
TInit == l = 1 /\ rids = {} /\ viol = {} /\ cov = <<>> /\ TLCSet(1, 0)

If(b, S) == IF b /\ Cardinality(viol) < 100 THEN S ELSE {}
V(inv, subj, detail, e) == [inv |-> inv, subj |-> subj, sig |-> "", detail |-> ToString(detail), scn |-> e.scn, line |-> l]
Bump(S) == [i \in DOMAIN cov \cup S |-> (IF i \in DOMAIN cov THEN cov[i] ELSE 0) + (IF i \in S THEN 1 ELSE 0)]

Step ==
  /\ l <= Len(Log)
  /\ LET e == Log[l] IN
     CASE e.ev = "reset" -> rids' = {} /\ UNCHANGED <<viol, cov>>
       [] e.ev = "fwd" ->
            LET wantPath == OutPath(e.segs, e.prefix, e.strip)
                wantXFF == OutXFF(e.xff_in, e.peer, e.forward)
                wantXFP == OutXF(e.xfp_in, e.proto, e.forward)
                wantXFH == OutXF(e.xfh_in, e.host, e.forward)
            IN /\ viol' = viol
                  \cup If(e.literal /\ e.segs_out # wantPath, {V("C13_path", e.id, <<"target saw path", e.segs_out, "expected", wantPath, "sent", e.segs>>, e)})
                  \cup If(~e.method_same \/ ~e.host_same, {V("C13_line", e.id, <<"method / Host changed", e.method_same, e.host_same>>, e)})
                  \cup If(~e.query_same, {V("C13_query", e.id, <<"query string changed", e.query_out>>, e)})
                  \cup If(~e.hdrs_same, {V("C13_hdrs", e.id, <<"end-to-end request header lost or changed", e.hdr_diff>>, e)})
                  \cup If(~e.body_same, {V("C13_body", e.id, <<"request body changed", e.body_len_in, e.body_len_out>>, e)})
                  \cup If(e.xff_out # wantXFF, {V("C13_xff", e.id, <<"X-Forwarded-For", e.xff_out, "expected", wantXFF>>, e)})
                  \cup If(e.xfp_out # wantXFP \/ e.xfh_out # wantXFH, {V("C13_xf", e.id, <<"X-Forwarded-Proto/-Host", e.xfp_out, e.xfh_out, "expected", wantXFP, wantXFH>>, e)})
                  \cup If(~RequestIdOk(e.rid_in, e.rid_out) \/ (e.rid_in = "" /\ e.rid_out \in rids), {V("C13_rid", e.id, <<"X-Request-ID", e.rid_in, e.rid_out>>, e)})
                  \cup If(~e.rstart, {V("C13_rstart", e.id, <<"X-Request-Start missing">>, e)})
                  \cup If(~e.resp_same, {V("C13_resp", e.id, <<"response changed", e.resp_diff>>, e)})
               /\ rids' = rids \cup {e.rid_out}
               /\ cov' = Bump({"C13_path", "C13_resp"} \cup (IF e.strip /\ Len(e.prefix) > 0 THEN {"C13_strip"} ELSE {})
                               \cup (IF e.forward THEN {"C13_fwd"} ELSE {}) \cup (IF e.xff_in # <<>> THEN {"C13_xff"} ELSE {}))
       [] e.ev = "harness_error" -> viol' = viol \cup {V("HARNESS", "", e.what, e)} /\ UNCHANGED <<rids, cov>>
       [] OTHER -> UNCHANGED <<rids, viol, cov>>
  /\ l' = l + 1
  /\ TLCSet(1, l)

Eof ==
  /\ l = Len(Log) + 1
  /\ JsonSerialize(IOEnv.VERIF_OUT, [lines |-> Len(Log), violations |-> viol, coverage |-> cov])
  /\ TLCSet(1, l)
  /\ l' = l + 1
  /\ UNCHANGED <<rids, viol, cov>>

TNext == Step \/ Eof
TSpec == TInit /\ [][TNext]_tvars
Accepted == TLCGet(1) = Len(Log) + 1
===========================================================================
