SPECIFICATION Spec
CONSTANTS
  t1 = t1
  t2 = t2
  t3 = t3
  t4 = t4
  r1 = r1
  r2 = r2
  r3 = r3
  NoTarget = NoTarget
  Cmds <- MCCmds
  Group <- MCGroup
  Reqs = {r1}
  Kinds = {"plain", "forever", "upgrade"}
  MaxProbes = 2
  AllowBad = TRUE
  SignalAfterNotify = TRUE
  Exempt = TRUE
INVARIANTS
  TypeOK
  D_C01_a
  D_C01_b
  D_C01_c
  D_C02
  D_C03_a
  D_C03_b
  D_C17_c
  D_C09
CHECK_DEADLOCK TRUE
