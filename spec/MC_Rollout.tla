----------------------------- MODULE MC_Rollout -----------------------------
EXTENDS Proxy
CONSTANTS t1, t2, t3, r1, r2, r3
\* command histories of the rollout family (one cfg each)
CmdsA == <<"deploy", "rdeploy", "rset", "rstop">>
GrpA  == <<{t1}, {t2}, {}, {}>>
CmdsB == <<"deploy", "rdeploy", "rset", "deploy">>          \* a redeploy keeps rollout targets and split
GrpB  == <<{t1}, {t2}, {}, {t3}>>
CmdsC == <<"deploy", "rdeploy", "rset", "rdeploy">>         \* the rollout group is replaced
GrpC  == <<{t1}, {t2}, {}, {t3}>>
CmdsD == <<"deploy", "rset", "rdeploy", "pause", "resume">> \* split refused without rollout targets; pause drains both groups
GrpD  == <<{t1}, {}, {t2}, {}, {}>>
Sym2 == Permutations({r1, r2})
=============================================================================
