#!/usr/bin/env python3
"""Offline setup: warm the Go build cache by building the executor from /repo, and syntax-check the specs."""
import os, subprocess, sys, glob, shutil, tempfile
sys.path.insert(0, os.path.dirname(os.path.abspath(__file__)))
import vlib

def main():
    try:
        b = vlib.build_harness()
        print("harness built:", b)
    except vlib.Inconclusive as e:
        print(e); sys.exit(1)
    wd = os.path.join(vlib.scratch(), "sany")
    shutil.copytree(vlib.SPEC, wd)
    bad = 0
    for f in sorted(glob.glob(os.path.join(wd, "*.tla"))):
        if f.endswith("Proof.tla"):
            # proof modules EXTEND TLAPS (the proof system's own library): checked by tlapm, not by SANY
            p = subprocess.run(["timeout", "600", "tlapm", "--cleanfp", os.path.basename(f)], cwd=wd, capture_output=True, text=True)
            ok = "obligations proved" in (p.stdout + p.stderr) and "failed" not in (p.stdout + p.stderr)
            print("tlapm", os.path.basename(f), "ok" if ok else "FAILED")
            if not ok:
                print((p.stdout + p.stderr)[-2000:]); bad += 1
            continue
        p = subprocess.run(["tla-sany", os.path.basename(f)], cwd=wd, capture_output=True, text=True)
        ok = p.returncode == 0 and "Semantic errors" not in p.stdout and "Fatal errors" not in p.stdout and "Could not parse" not in p.stdout
        print("sany", os.path.basename(f), "ok" if ok else "FAILED")
        if not ok:
            print(p.stdout[-2000:]); bad += 1
    sys.exit(1 if bad else 0)

main()
