------------------------------ MODULE Forward ------------------------------
(***************************************************************************)
(* C13: what a forwarded request must look like at the target, as a        *)
(* function of what the client sent and of the service's settings.         *)
(*                                                                         *)
(* A path is the sequence of its raw (still percent-encoded) segments:     *)
(* "/app/a%2Fb//" = <<"app", "a%2Fb", "", "">>.  The prefix of a service   *)
(* is a sequence of plain segments.  Everything the function does not      *)
(* mention (method, query, Host, end-to-end headers, body, and the whole    *)
(* response) must arrive unchanged.                                        *)
(***************************************************************************)
EXTENDS Integers, Sequences, FiniteSets

IsPrefixSeq(p, q) == Len(p) <= Len(q) /\ \A i \in 1..Len(p) : p[i] = q[i]
Drop(s, n) == SubSeq(s, n + 1, Len(s))

\* the path the target must see: the matched prefix removed iff stripping applies and the client spelled it literally
Norm(s) == IF s = <<"">> THEN <<>> ELSE s        \* "/" is the empty sequence
OutPathRaw(segs, prefix, strip) ==
  IF strip /\ Len(prefix) > 0 /\ IsPrefixSeq(prefix, segs) THEN Drop(segs, Len(prefix)) ELSE segs
OutPath(segs, prefix, strip) == Norm(OutPathRaw(segs, prefix, strip))

\* "/app" itself, stripped, is the root
Render(segs) == segs

\* X-Forwarded-For: client-supplied values are discarded unless forwarding is enabled, then kept and the client address appended
OutXFF(clientXFF, peer, forward) == IF forward THEN clientXFF \o <<peer>> ELSE <<peer>>
\* X-Forwarded-Proto / -Host: describe the actual connection; a client-supplied value survives only with forwarding on
OutXF(clientVal, actual, forward) == IF forward /\ clientVal # "" THEN clientVal ELSE actual

\* X-Request-ID: the client's if it sent one, else a fresh one (non-empty, unique among requests)
RequestIdOk(clientRid, outRid) == IF clientRid # "" THEN outRid = clientRid ELSE outRid # ""

=============================================================================
