SPECIFICATION Spec
CONSTANTS
  Targets <- T2
  Order <- Order2
  MaxProbes = 2
  MaxClaims = 1
  BuildUnderLock = TRUE
  NotifyAlways = FALSE
  CoalesceRebuilds = TRUE
INVARIANTS
  R_Settled
CHECK_DEADLOCK FALSE
