SPECIFICATION TraceSpec
CONSTANTS
  Cmds <- TCmds
  Group <- TGroup
  Reqs <- TReqs
  Kinds <- TKinds
  MaxProbes = 1000000
  AllowBad = TRUE
  SignalAfterNotify = TRUE
  Exempt = TRUE
  NoTarget = "none"
INVARIANTS
  TypeOK
  D_C01_a
  D_C01_b
  D_C01_c
  D_C03_a
  D_C03_b
  D_C03_p
  D_C07_a
  D_C07_b
  D_C08
  D_C09
  D_C17_c
  D_C17_r
  D_C10
  D_C10_split
POSTCONDITION Accepted
CHECK_DEADLOCK FALSE
