SPECIFICATION Spec
INVARIANTS
  Inv_OneRecord
CHECK_DEADLOCK FALSE
