SPECIFICATION Spec
CONSTANTS
  Cmds <- C3
  Kind <- Kind3
  Name <- Name3
  Bind <- Bind3
  MayFail = TRUE
  AtomicInstall = FALSE
  DisposeOnConflict = TRUE
INVARIANTS
  O_Ownership
CHECK_DEADLOCK TRUE
