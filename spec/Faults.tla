------------------------------- MODULE Faults -------------------------------
(***************************************************************************)
(* C15: what the client must see when a target fails, as a function of the *)
(* point at which the target connection fails, of how long the target      *)
(* stalls relative to the target timeout, and of the service's custom      *)
(* error pages.                                                            *)
(***************************************************************************)
EXTENDS Integers, FiniteSets

\* failure points before the response header block is complete
Early == {"refuse", "reset0", "garbage", "midhdr"}
\* failure points after it
Late == {"midbody", "midchunk"}

\* [status, cut]: cut = the response must be visibly incomplete (aborted connection / short body), never look complete
Expected(fault, stall, timeout) ==
  IF fault \in Early THEN [status |-> 502, cut |-> FALSE]
  ELSE IF fault = "silence" THEN (IF stall >= timeout THEN [status |-> 504, cut |-> FALSE] ELSE [status |-> 200, cut |-> FALSE])
  ELSE IF fault \in Late THEN [status |-> 200, cut |-> TRUE]
  ELSE [status |-> 200, cut |-> FALSE]

\* which page renders a proxy-generated error: the service's own page for that status if it has one, else the built-in one
Page(status, custom) == IF status \in custom THEN "custom" ELSE "builtin"

\* a 504 is answered exactly when the target timeout expires; everything else at once (virtual clock)
AnsweredAt(fault, stall, timeout, sent) ==
  IF fault = "silence" THEN (IF stall >= timeout THEN sent + timeout ELSE sent + stall) ELSE sent
=============================================================================
