---------------------------- MODULE BufferTrace ----------------------------
(* Validates the recorded buffer writes (after every write: bytes in memory / on disk / overflowed, from the    *)
(* buffer_write hook) against Write of Buffer.tla, and the recorded request outcomes against ReqOutcome /       *)
(* RespOutcome, including "contacted only after the whole body arrived" and "no temporary file left".           *)
EXTENDS Buffer, TLC, Json, IOUtils

Log == ndJsonDeserialize(IOEnv.VERIF_TRACE)
VARIABLES l, bufs, viol, cov
vars == <<l, bufs, viol, cov>>
Init == l = 1 /\ bufs = <<>> /\ viol = {} /\ cov = <<>> /\ TLCSet(1, 0)
If(b, S) == IF b /\ Cardinality(viol) < 100 THEN S ELSE {}
V(inv, subj, detail, e) == [inv |-> inv, subj |-> subj, sig |-> "", detail |-> ToString(detail), scn |-> e.scn, line |-> l]
Bump(S) == [i \in DOMAIN cov \cup S |-> (IF i \in DOMAIN cov THEN cov[i] ELSE 0) + (IF i \in S THEN 1 ELSE 0)]
Get(f, k, d) == IF k \in DOMAIN f THEN f[k] ELSE d

Step ==
  /\ l <= Len(Log)
  /\ LET e == Log[l] IN
     CASE e.ev = "reset" -> bufs' = <<>> /\ UNCHANGED <<viol, cov>>
       [] e.ev = "bufw" ->
            LET st == Get(bufs, e.b, Fresh)
                want == Write(st, e.n, e.max_mem, e.max_bytes)
                ok == e.mem = want.mem /\ e.disk = want.disk /\ e.over = want.over
            IN /\ viol' = viol
                  \cup If(e.mem > e.max_mem, {V("C14_mem", ToString(e.b), <<"bytes held in memory", e.mem, "limit", e.max_mem>>, e)})
                  \cup If(~ok, {V("C14_buf", ToString(e.b), <<"after write of", e.n, "buffer has", e.mem, e.disk, e.over, "expected", want.mem, want.disk, want.over>>, e)})
               /\ bufs' = (e.b :> want) @@ bufs
               /\ cov' = Bump({"C14_buf"} \cup (IF want.spilled THEN {"C14_spill"} ELSE {}) \cup (IF want.over THEN {"C14_over"} ELSE {}))
       [] e.ev = "bufreq" ->
            LET rq == ReqOutcome(e.req_len, e.buf_req, e.max_req)
                rs == RespOutcome(e.resp_len, e.buf_resp, e.max_resp, e.sse)
                good == IF rq = "413" THEN e.status = 413 /\ ~e.contacted
                        ELSE IF rs = "500" THEN e.contacted /\ e.req_ok /\ e.status = 500 /\ e.got_len = e.err_len
                        ELSE e.contacted /\ e.req_ok /\ e.status = e.want_status /\ e.resp_ok
            IN /\ viol' = viol
                  \cup If(~good, {V("C14_outcome", e.id, <<"request", e.req_len, "response", e.resp_len, "limits", e.max_req, e.max_resp, "buffering", e.buf_req, e.buf_resp,
                                                             "got", e.status, "contacted", e.contacted, "req_ok", e.req_ok, "resp_ok", e.resp_ok>>, e)})
                  \cup If(e.buf_req /\ e.contacted /\ e.seen_at < e.sent_all_at,
                          {V("C14_early", e.id, <<"target contacted at", e.seen_at, "before the whole body had arrived at", e.sent_all_at>>, e)})
                  \cup If(e.tmp_left # 0, {V("C14_tmp", e.id, <<"temporary files left after the request", e.tmp_left>>, e)})
               /\ cov' = Bump({"C14_outcome"} \cup (IF rq = "413" THEN {"C14_413"} ELSE {}) \cup (IF rs = "500" THEN {"C14_500"} ELSE {})
                               \cup (IF e.sse THEN {"C14_sse"} ELSE {}) \cup (IF e.buf_req /\ e.split THEN {"C14_early"} ELSE {}))
               /\ UNCHANGED bufs
       [] e.ev = "harness_error" -> viol' = viol \cup {V("HARNESS", "", e.what, e)} /\ UNCHANGED <<bufs, cov>>
       [] OTHER -> UNCHANGED <<bufs, viol, cov>>
  /\ l' = l + 1
  /\ TLCSet(1, l)

Eof ==
  /\ l = Len(Log) + 1
  /\ JsonSerialize(IOEnv.VERIF_OUT, [lines |-> Len(Log), violations |-> viol, coverage |-> cov])
  /\ TLCSet(1, l)
  /\ l' = l + 1
  /\ UNCHANGED <<bufs, viol, cov>>
Next == Step \/ Eof
Spec == Init /\ [][Next]_vars
Accepted == TLCGet(1) = Len(Log) + 1
=============================================================================
