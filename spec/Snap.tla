-------------------------------- MODULE Snap --------------------------------
(***************************************************************************)
(* Design model of the state snapshot (router.go saveStateSnapshot and the *)
(* commands that defer it), for C12.                                       *)
(*                                                                         *)
(* Every mutating command runs, changes the configuration in memory at     *)
(* some moment, and then - also when it failed - saves a snapshot:         *)
(*   acquire stateLock; list + marshal under the router's read lock;       *)
(*   create the temporary file; write; rename over the state file;         *)
(*   release.                                                              *)
(* Commands overlap freely.  A crash is not an action: the invariants say  *)
(* what a proxy started in ANY reachable state would read.                 *)
(*                                                                         *)
(* Variants (negative controls, the code before repair F5):                *)
(*   Atomic = FALSE  the state file is truncated and rewritten in place    *)
(*   Locked = FALSE  no stateLock: the save steps of two commands interleave*)
(***************************************************************************)
EXTENDS Integers, Sequences, FiniteSets

CONSTANTS Cmds,      \* command ids
          Cfgs,      \* configurations a mutation may produce
          Init0,     \* configuration at start (also the content of the file: nothing to restore)
          Atomic, Locked,
          MaxMut     \* bound on the number of mutations (exhaustive runs)

Trunc == "<truncated>"    \* content of a file that was created or truncated and not written yet

VARIABLES phase,    \* phase[c]: new, running, save, locked, listed, created, written, renamed, released, done
          mem,      \* configuration in force
          hist,     \* every configuration that has been in force, in order
          since,    \* since[c] = length of hist when c began
          data,     \* data[c] = what c marshalled
          file,     \* content of the state file
          tmp,      \* content of the temporary file
          lock,     \* holder of stateLock ("" = free)
          dirty     \* commands that changed the configuration
vars == <<phase, mem, hist, since, data, file, tmp, lock, dirty>>

Init == /\ phase = [c \in Cmds |-> "new"]
        /\ mem = Init0 /\ hist = <<Init0>>
        /\ since = [c \in Cmds |-> 0]
        /\ data = [c \in Cmds |-> ""]
        /\ file = Init0 /\ tmp = "" /\ lock = "" /\ dirty = {}

Start(c) == /\ phase[c] = "new"
            /\ phase' = [phase EXCEPT ![c] = "running"]
            /\ since' = [since EXCEPT ![c] = Len(hist)]
            /\ UNCHANGED <<mem, hist, data, file, tmp, lock, dirty>>

Mutate(c, v) ==                                  \* install / remove / pause state / rollout change: under the router's lock
  /\ phase[c] = "running" /\ v # mem /\ Len(hist) <= MaxMut
  /\ mem' = v /\ hist' = Append(hist, v) /\ dirty' = dirty \cup {c}
  /\ UNCHANGED <<phase, since, data, file, tmp, lock>>

BeginSave(c) == /\ phase[c] = "running"          \* hook snap_begin
                /\ phase' = [phase EXCEPT ![c] = "save"]
                /\ UNCHANGED <<mem, hist, since, data, file, tmp, lock, dirty>>

Acquire(c) == /\ phase[c] = "save"
              /\ ~Locked \/ lock = ""
              /\ lock' = IF Locked THEN c ELSE lock
              /\ phase' = [phase EXCEPT ![c] = "locked"]
              /\ UNCHANGED <<mem, hist, since, data, file, tmp, dirty>>

List(c) == /\ phase[c] = "locked"                \* hook snap_listed
           /\ data' = [data EXCEPT ![c] = mem]
           /\ phase' = [phase EXCEPT ![c] = "listed"]
           /\ UNCHANGED <<mem, hist, since, file, tmp, lock, dirty>>

Create(c) == /\ phase[c] = "listed"              \* hook snap_created
             /\ IF Atomic THEN tmp' = Trunc /\ file' = file ELSE file' = Trunc /\ tmp' = tmp
             /\ phase' = [phase EXCEPT ![c] = "created"]
             /\ UNCHANGED <<mem, hist, since, data, lock, dirty>>

Write(c) == /\ phase[c] = "created"
            /\ IF Atomic THEN tmp' = data[c] /\ file' = file ELSE file' = data[c] /\ tmp' = tmp
            /\ phase' = [phase EXCEPT ![c] = "written"]
            /\ UNCHANGED <<mem, hist, since, data, lock, dirty>>

Rename(c) == /\ phase[c] = "written"             \* hook snap_written
             /\ file' = IF Atomic THEN tmp ELSE file
             /\ phase' = [phase EXCEPT ![c] = "renamed"]
             /\ UNCHANGED <<mem, hist, since, data, tmp, lock, dirty>>

Release(c) == /\ phase[c] = "renamed"
              /\ lock' = IF Locked THEN "" ELSE lock
              /\ phase' = [phase EXCEPT ![c] = "released"]
              /\ UNCHANGED <<mem, hist, since, data, file, tmp, dirty>>

Return(c) == /\ phase[c] = "released"
             /\ phase' = [phase EXCEPT ![c] = "done"]
             /\ UNCHANGED <<mem, hist, since, data, file, tmp, lock, dirty>>

ReturnWithoutSave(c) ==                          \* a command refused before it touched anything (unknown service)
  /\ phase[c] = "running" /\ c \notin dirty
  /\ phase' = [phase EXCEPT ![c] = "done"]
  /\ UNCHANGED <<mem, hist, since, data, file, tmp, lock, dirty>>

Finished == (\A c \in Cmds : phase[c] = "done") /\ UNCHANGED vars

Next == \/ \E c \in Cmds : Start(c) \/ BeginSave(c) \/ Acquire(c) \/ List(c) \/ Create(c) \/ Write(c) \/ Rename(c)
                           \/ Release(c) \/ Return(c) \/ ReturnWithoutSave(c)
        \/ \E c \in Cmds, v \in Cfgs : Mutate(c, v)
        \/ Finished
Spec == Init /\ [][Next]_vars

InProgress == {c \in Cmds : phase[c] \notin {"new", "done"}}
Low == IF InProgress = {} THEN Len(hist)
       ELSE CHOOSE n \in {since[c] : c \in InProgress} : \A c \in InProgress : n <= since[c]

\* C12: whatever instant the process is killed at, the file is a complete snapshot ...
S_Complete == file # Trunc
\* ... of a configuration that was in force at some moment since the oldest command in progress began
S_Window == \E i \in Low..Len(hist) : hist[i] = file
\* once every command has returned the file describes the configuration in force
S_Current == InProgress = {} => file = mem
\* one writer at a time
S_Mutex == Locked => Cardinality({c \in Cmds : phase[c] \in {"locked", "listed", "created", "written", "renamed"}}) <= 1

=============================================================================
