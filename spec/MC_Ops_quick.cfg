SPECIFICATION Spec
CONSTANTS
  Names = {"s1"}
  MaxServices = 1
VIEW View
PROPERTIES
  Act_FailChangesNothing
INVARIANTS
  Inv_Shape
  Inv_Ownership
  Inv_SplitNeedsTargets
CHECK_DEADLOCK FALSE
