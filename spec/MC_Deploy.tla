---------------------------- MODULE MC_Deploy ----------------------------
EXTENDS Proxy
CONSTANTS t1, t2, t3, t4, r1, r2, r3
\* quick: two successive deploys {t1} -> {t2,t3}, two requests
MCCmds   == <<"deploy", "deploy">>
MCGroup  == <<{t1}, {t2, t3}>>
MCGroupS == <<{t1}, {t2}>>
\* thorough: three successive deploys
MCCmds3  == <<"deploy", "deploy", "deploy">>
MCGroup3 == <<{t1}, {t2, t3}, {t4}>>
MCGroup3s == <<{t1}, {t2}, {t3}>>
Sym2 == Permutations({r1, r2})
Sym3 == Permutations({r1, r2, r3})
==========================================================================
