SPECIFICATION Spec
CONSTANTS
  Targets <- T2
  Order <- Order2
  MaxProbes = 2
  MaxClaims = 1
  BuildUnderLock = FALSE
  NotifyAlways = FALSE
  CoalesceRebuilds = FALSE
INVARIANTS
  R_Settled
CHECK_DEADLOCK FALSE
