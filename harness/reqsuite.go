package harness

import (
	"bufio"
	"bytes"
	"context"
	"crypto/sha256"
	"encoding/hex"
	"fmt"
	"io"
	"math/rand"
	"net/http"
	"os"
	"path/filepath"
	"sort"
	"strconv"
	"strings"
	"sync"
	"testing"
	"testing/synctest"
	"time"
)

// Request-level suites (C13 forward, C14 buffer, C15 faults, C19 access log): crafted requests are written as raw
// bytes on an in-memory connection to the full handler chain; an echo target reports exactly what it received.

type seenReq struct {
	Method, URI, Host string
	Header            http.Header
	Body              []byte
	At                int
}

type echoStore struct {
	mu   sync.Mutex
	seen map[string]*seenReq
}

func (s *echoStore) put(id string, r *seenReq) {
	s.mu.Lock()
	defer s.mu.Unlock()
	if s.seen == nil {
		s.seen = map[string]*seenReq{}
	}
	s.seen[id] = r
}

func (s *echoStore) get(id string) *seenReq {
	s.mu.Lock()
	defer s.mu.Unlock()
	return s.seen[id]
}

func patternBody(n int, salt byte) []byte {
	b := make([]byte, n)
	for i := range b {
		b[i] = byte(i*7) ^ salt ^ byte(i>>8)
	}
	return b
}

// respSpec: "status;size;flavour" carried in X-Verif-Resp
func (ft *FakeTarget) serveEcho(rw http.ResponseWriter, r *http.Request) {
	body, _ := io.ReadAll(r.Body)
	id := r.Header.Get("X-Verif-Echo")
	ft.w.echo.put(id, &seenReq{Method: r.Method, URI: r.RequestURI, Host: r.Host, Header: r.Header.Clone(), Body: body, At: ft.w.rec.Now()})
	parts := strings.Split(r.Header.Get("X-Verif-Resp"), ";")
	status, size, flavour := 200, 64, ""
	if len(parts) >= 2 {
		status, _ = strconv.Atoi(parts[0])
		size, _ = strconv.Atoi(parts[1])
	}
	if len(parts) >= 3 {
		flavour = parts[2]
	}
	h := rw.Header()
	h.Set("X-Verif-Origin", ft.name)
	h.Set("Content-Type", "application/x-verif")
	switch flavour {
	case "multi":
		h.Add("X-Multi", "one")
		h.Add("X-Multi", "two, three")
		h.Add("Set-Cookie", "a=1; Path=/")
		h.Add("Set-Cookie", "b=2; HttpOnly")
		h.Set("Cache-Control", "no-store")
	case "sse":
		h.Set("Content-Type", "text/event-stream")
	case "loc":
		h.Set("Location", "http://elsewhere.test/x?y=1")
	case "early":
		h.Set("Link", "</style.css>; rel=preload")
		rw.WriteHeader(http.StatusEarlyHints)
	}
	if flavour == "die" || flavour == "diemid" {
		hj, ok := rw.(http.Hijacker)
		if ok {
			conn, brw, err := hj.Hijack()
			if err == nil {
				if flavour == "diemid" {
					fmt.Fprintf(brw, "HTTP/1.1 200 OK\r\nContent-Length: %d\r\nContent-Type: application/x-verif\r\n\r\n", size)
					brw.Write(patternBody(size*2/3, 1))
					brw.Flush()
				}
				conn.Close()
			}
		}
		return
	}
	if strings.HasPrefix(flavour, "parts:") {
		// the body is delivered piece by piece, each piece flushed and a little later than the one before: the proxy sees
		// exactly these writes
		rw.WriteHeader(status)
		b := patternBody(size, byte(len(id)))
		for _, ps := range strings.Split(strings.TrimPrefix(flavour, "parts:"), "-") {
			n, _ := strconv.Atoi(ps)
			if n > len(b) {
				n = len(b)
			}
			rw.Write(b[:n])
			b = b[n:]
			if f, ok := rw.(http.Flusher); ok {
				f.Flush()
			}
			time.Sleep(2 * time.Millisecond)
		}
		return
	}
	rw.WriteHeader(status)
	if size > 0 && status != 204 && status != 304 {
		b := patternBody(size, byte(len(id)))
		// written in a few chunks
		for len(b) > 0 {
			n := 1 + len(b)/3
			if n > len(b) {
				n = len(b)
			}
			rw.Write(b[:n])
			if f, ok := rw.(http.Flusher); ok && flavour == "sse" {
				f.Flush()
			}
			b = b[n:]
		}
	}
}

type rawReq struct {
	id      string
	method  string
	path    string // raw path
	query   string // raw query ("" = none)
	host    string
	headers [][2]string
	body    []byte
	chunked bool
	https   bool
}

type rawResp struct {
	status int
	header http.Header
	body   []byte
	err    string
}

func (w *World) rawDo(rq rawReq) rawResp {
	addr := proxyHTTP
	if rq.https {
		addr = proxyHTTPS
	}
	conn, err := w.net.Dialer("client")(context.Background(), "mem", addr)
	if err != nil {
		return rawResp{err: err.Error()}
	}
	defer conn.Close()
	var b bytes.Buffer
	uri := rq.path
	if rq.query != "" {
		uri += "?" + rq.query
	}
	fmt.Fprintf(&b, "%s %s HTTP/1.1\r\nHost: %s\r\n", rq.method, uri, rq.host)
	for _, kv := range rq.headers {
		fmt.Fprintf(&b, "%s: %s\r\n", kv[0], kv[1])
	}
	if rq.chunked {
		b.WriteString("Transfer-Encoding: chunked\r\nConnection: close\r\n\r\n")
		rest := rq.body
		for len(rest) > 0 {
			n := 1 + len(rest)/2
			fmt.Fprintf(&b, "%x\r\n", n)
			b.Write(rest[:n])
			b.WriteString("\r\n")
			rest = rest[n:]
		}
		b.WriteString("0\r\n\r\n")
	} else {
		if len(rq.body) > 0 || rq.method == "POST" || rq.method == "PUT" || rq.method == "PATCH" {
			fmt.Fprintf(&b, "Content-Length: %d\r\n", len(rq.body))
		}
		b.WriteString("Connection: close\r\n\r\n")
		b.Write(rq.body)
	}
	go func() {
		conn.Write(b.Bytes())
	}()
	br := bufio.NewReader(conn)
	resp, err := http.ReadResponse(br, &http.Request{Method: rq.method})
	for err == nil && resp.StatusCode >= 100 && resp.StatusCode < 200 && resp.StatusCode != 101 {
		resp, err = http.ReadResponse(br, &http.Request{Method: rq.method}) // informational responses precede the final one
	}
	if err != nil {
		return rawResp{err: err.Error()}
	}
	body, rerr := io.ReadAll(resp.Body)
	out := rawResp{status: resp.StatusCode, header: resp.Header, body: body}
	if rerr != nil {
		out.err = rerr.Error()
	}
	return out
}

func splitXFF(vals []string) []string {
	out := []string{}
	for _, v := range vals {
		for _, p := range strings.Split(v, ",") {
			if s := strings.TrimSpace(p); s != "" {
				out = append(out, s)
			}
		}
	}
	return out
}

var hopByHop = map[string]bool{"Connection": true, "Keep-Alive": true, "Proxy-Authenticate": true, "Proxy-Authorization": true, "Te": true,
	"Trailer": true, "Transfer-Encoding": true, "Upgrade": true, "Proxy-Connection": true}

// RunForward: C13.
func RunForward(t *testing.T, scn int, seed int64, n int, rec *Recorder, dir string) {
	synctest.Test(t, func(t *testing.T) {
		rng := rand.New(rand.NewSource(seed))
		plan := &Plan{Family: "forward", Sched: "free", Targets: map[string]TargetScript{}}
		for _, tn := range []string{"e1", "e2", "e3", "e4", "e5", "e6"} {
			plan.Targets[tn] = TargetScript{Then: ProbeOutcome{Class: "ok"}}
		}
		w := &World{t: t, plan: plan, rec: rec, dir: dir}
		w.setup(scn)
		w.rec.Emit("reset", KV{"family": "forward", "urgent": true, "seed": seed, "note": ""})
		type svc struct {
			host   string
			prefix []string
			strip  bool
			fwd    bool
		}
		svcs := []svc{
			{"f.test", nil, true, false},
			{"f.test", []string{"app"}, true, false},
			{"g.test", []string{"app"}, false, false},
			{"h.test", nil, true, true},
			{"h.test", []string{"app", "v1"}, true, true},
			{"b.test", nil, true, false}, // request and response buffering with a small memory buffer (spills to disk)
		}
		for i, s := range svcs {
			c := Cmd{ID: fmt.Sprintf("c%d", i+1), Kind: "deploy", Svc: fmt.Sprintf("S%d", i+1), Hosts: []string{s.host}, Targets: []string{fmt.Sprintf("e%d", i+1)},
				StripPrefix: s.strip, ForwardHdrs: s.fwd, DeployTimeoutMs: 2000, DrainTimeoutMs: 500}
			if len(s.prefix) > 0 {
				c.Paths = []string{"/" + strings.Join(s.prefix, "/")}
			}
			if s.host == "b.test" {
				c.BufReq, c.BufResp, c.MaxMem = true, true, 4096
			}
			w.execCmd(c)
		}
		atoms := []string{"x", "app", "v1", "a%2Fb", "%41bc", "sp%20ace", "", "..", ".", "caf%C3%A9", "semi;colon", "plus+sign", "app"}
		queries := []string{"", "a=1&b=2", "p=a;b", "x=%", "%zz", "q=caf%C3%A9&empty=&&", "a=1&a=2", "just-a-token", "sp=a+b%20c"}
		methods := []string{"GET", "POST", "PUT", "DELETE", "PATCH", "OPTIONS", "HEAD"}
		var rmu sync.Mutex
		one := func(i int, rng *rand.Rand, big bool) {
			rmu.Lock()
			s := svcs[rng.Intn(len(svcs))]
			upload := i >= 2000000 // overlapping uploads into the service that buffers request bodies
			if upload {
				s = svcs[len(svcs)-1]
			}
			id := fmt.Sprintf("q%d", i)
			var segs []string
			literal := true
			if len(s.prefix) > 0 {
				segs = append(segs, s.prefix...)
			}
			for k := 0; k < rng.Intn(4); k++ {
				segs = append(segs, atoms[rng.Intn(len(atoms))])
			}
			if rng.Intn(6) == 0 {
				segs = append(segs, "") // trailing slash
			}
			path := "/" + strings.Join(segs, "/")
			// the service that will actually serve this path: longest literal prefix on the same host
			for _, o := range svcs {
				if o.host == s.host && len(o.prefix) > len(s.prefix) && len(o.prefix) <= len(segs) {
					match := true
					for k := range o.prefix {
						if segs[k] != o.prefix[k] {
							match = false
						}
					}
					if match {
						s = o
					}
				}
			}
			rq := rawReq{id: id, method: methods[rng.Intn(len(methods))], path: path, query: queries[rng.Intn(len(queries))], host: s.host}
			if rng.Intn(3) == 0 {
				rq.host = s.host + ":8080"
			}
			rq.headers = append(rq.headers, [2]string{"X-Verif-Echo", id})
			status := []int{200, 200, 201, 204, 301, 404, 418, 500, 503}[rng.Intn(9)]
			size := []int{0, 1, 64, 5000, 70000}[rng.Intn(5)]
			if big {
				size = 60000 + rng.Intn(40000)
				status = 200
			}
			flavour := []string{"", "multi", "loc"}[rng.Intn(3)]
			rq.headers = append(rq.headers, [2]string{"X-Verif-Resp", fmt.Sprintf("%d;%d;%s", status, size, flavour)})
			// end-to-end headers
			e2e := [][2]string{{"X-Custom", "v" + id}, {"Accept", "text/html, */*;q=0.8"}, {"Authorization", "Bearer abc.def"}, {"X-Multi-In", "one"}, {"X-Multi-In", "two"},
				{"Cookie", "a=1; b=2"}, {"User-Agent", "verif/1.0"}, {"Accept-Encoding", "identity"}, {"X-Empty", ""}}
			for _, kv := range e2e {
				if rng.Intn(3) > 0 {
					rq.headers = append(rq.headers, kv)
				}
			}
			var xffIn []string
			xfpIn, xfhIn, ridIn := "", "", ""
			if rng.Intn(2) == 0 {
				lines := [][]string{{"203.0.113.7"}, {"203.0.113.7, 198.51.100.20"}, {"203.0.113.7", "198.51.100.20"}}[rng.Intn(3)]
				for _, l := range lines {
					rq.headers = append(rq.headers, [2]string{"X-Forwarded-For", l})
				}
				xffIn = splitXFF(lines)
			}
			if rng.Intn(3) == 0 {
				xfpIn = []string{"https", "http"}[rng.Intn(2)]
				rq.headers = append(rq.headers, [2]string{"X-Forwarded-Proto", xfpIn})
			}
			if rng.Intn(3) == 0 {
				xfhIn = "outer.example"
				rq.headers = append(rq.headers, [2]string{"X-Forwarded-Host", xfhIn})
			}
			if rng.Intn(3) == 0 {
				ridIn = "client-rid-" + id
				rq.headers = append(rq.headers, [2]string{"X-Request-Id", ridIn})
			}
			if rq.method == "POST" || rq.method == "PUT" || rq.method == "PATCH" {
				rq.body = patternBody([]int{0, 1, 300, 9000, 40000}[rng.Intn(5)], byte(i))
				rq.chunked = rng.Intn(2) == 0 && len(rq.body) > 0
			}
			if upload {
				rq.method, rq.chunked = "POST", false
				rq.body = patternBody(200+rng.Intn(9000), byte(i))
			}
			rmu.Unlock()
			var resp rawResp
			if upload {
				resp, _ = w.rawDoSplit(rq, true) // the body arrives in two parts, a little apart: the uploads overlap while being buffered
			} else {
				resp = w.rawDo(rq)
			}
			seen := w.echo.get(id)
			if seen == nil || resp.err != "" {
				w.rec.Emit("harness_error", KV{"what": fmt.Sprintf("forward probe %s got no echo (status %d err %q path %q)", id, resp.status, resp.err, path)})
				return
			}
			// what the target saw
			outPath, outQuery := seen.URI, ""
			if j := strings.Index(seen.URI, "?"); j >= 0 {
				outPath, outQuery = seen.URI[:j], seen.URI[j+1:]
			}
			hdrSame, diff := true, ""
			want := map[string][]string{}
			for _, kv := range rq.headers {
				k := http.CanonicalHeaderKey(kv[0])
				if hopByHop[k] || strings.HasPrefix(k, "X-Forwarded-") || k == "X-Request-Id" || k == "X-Request-Start" {
					continue
				}
				want[k] = append(want[k], kv[1])
			}
			keys := make([]string, 0, len(want))
			for k := range want {
				keys = append(keys, k)
			}
			sort.Strings(keys)
			for _, k := range keys {
				got := seen.Header[k]
				if strings.Join(got, "\x00") != strings.Join(want[k], "\x00") {
					hdrSame = false
					diff += fmt.Sprintf("%s: sent %q got %q; ", k, want[k], got)
				}
			}
			respSame, rdiff := true, ""
			if resp.status != status {
				respSame, rdiff = false, fmt.Sprintf("status %d -> %d; ", status, resp.status)
			}
			wantBody := []byte{}
			if size > 0 && status != 204 && status != 304 && rq.method != "HEAD" {
				wantBody = patternBody(size, byte(len(id)))
			}
			if !bytes.Equal(resp.body, wantBody) {
				respSame = false
				rdiff += fmt.Sprintf("body %d bytes -> %d bytes; ", len(wantBody), len(resp.body))
			}
			if resp.header.Get("Content-Type") != "application/x-verif" {
				respSame = false
				rdiff += "content-type; "
			}
			if flavour == "multi" && (strings.Join(resp.header["X-Multi"], "|") != "one|two, three" || strings.Join(resp.header["Set-Cookie"], "|") != "a=1; Path=/|b=2; HttpOnly") {
				respSame = false
				rdiff += fmt.Sprintf("multi-valued headers %q %q; ", resp.header["X-Multi"], resp.header["Set-Cookie"])
			}
			if flavour == "loc" && resp.header.Get("Location") != "http://elsewhere.test/x?y=1" {
				respSame = false
				rdiff += "location; "
			}
			proto := "http"
			if rq.https {
				proto = "https"
			}
			sum := sha256.Sum256(seen.Body)
			_ = hex.EncodeToString(sum[:])
			w.rec.Emit("fwd", KV{"id": id, "segs": pathSegs(path), "prefix": nonNil(s.prefix), "strip": s.strip, "forward": s.fwd, "literal": literal,
				"segs_out": normSegs(pathSegs(outPath)), "method_same": seen.Method == rq.method, "host_same": seen.Host == rq.host,
				"query_same": outQuery == rq.query, "query_out": outQuery, "hdrs_same": hdrSame, "hdr_diff": diff,
				"body_same": bytes.Equal(seen.Body, rq.body) || (len(seen.Body) == 0 && len(rq.body) == 0), "body_len_in": len(rq.body), "body_len_out": len(seen.Body),
				"xff_in": nonNil(xffIn), "xff_out": splitXFF(seen.Header["X-Forwarded-For"]), "peer": "10.0.0.9",
				"xfp_in": xfpIn, "xfp_out": seen.Header.Get("X-Forwarded-Proto"), "proto": proto,
				"xfh_in": xfhIn, "xfh_out": seen.Header.Get("X-Forwarded-Host"), "host": rq.host,
				"rid_in": ridIn, "rid_out": seen.Header.Get("X-Request-Id"), "rstart": seen.Header.Get("X-Request-Start") != "",
				"resp_same": respSame, "resp_diff": rdiff, "path": path})
		}
		for i := 0; i < n; i++ {
			one(i, rng, false)
		}
		// concurrent phase: several clients fetch large responses at the same time
		var wg sync.WaitGroup
		for g := 0; g < 8; g++ {
			wg.Add(1)
			grng := rand.New(rand.NewSource(seed*100 + int64(g)))
			go func(g int) {
				defer wg.Done()
				for k := 0; k < n/40+3; k++ {
					one(1000000+g*10000+k, grng, true)
				}
			}(g)
		}
		wg.Wait()
		// overlapping buffered uploads, each with a body of its own (after the sequential ones have warmed everything up)
		for round := 0; round < 3; round++ {
			for g := 0; g < 6; g++ {
				wg.Add(1)
				grng := rand.New(rand.NewSource(seed*1000 + int64(round*10+g)))
				go func(g int) {
					defer wg.Done()
					for k := 0; k < 4; k++ {
						one(2000000+round*1000+g*10+k, grng, false)
					}
				}(g)
			}
			wg.Wait()
		}
		time.Sleep(2 * time.Second)
		synctest.Wait()
		w.rec.Emit("end", nil)
		w.teardown()
	})
}

func normSegs(s []string) []string {
	if len(s) == 1 && s[0] == "" {
		return []string{}
	}
	return s
}

// RunBuffer: C14.
func RunBuffer(t *testing.T, scn int, seed int64, n int, rec *Recorder, dir string) {
	os.Setenv("TMPDIR", dir)
	synctest.Test(t, func(t *testing.T) {
		rng := rand.New(rand.NewSource(seed))
		type bsvc struct {
			host            string
			bufReq, bufResp bool
			maxMem          int64
			maxReq, maxResp int64
		}
		svcs := []bsvc{
			{"b1.test", true, true, 1024, 0, 0},
			{"b2.test", true, false, 1024, 3000, 0},
			{"b3.test", false, true, 1024, 0, 3000},
			{"b4.test", true, true, 4096, 2000, 2000},
			{"b5.test", true, true, 0, 5000, 5000},
			{"b6.test", false, false, 1024, 0, 0},
			{"b7.test", true, true, 1, 7, 7},
		}
		plan := &Plan{Family: "buffer", Sched: "free", Targets: map[string]TargetScript{}}
		for i := range svcs {
			plan.Targets[fmt.Sprintf("e%d", i+1)] = TargetScript{Then: ProbeOutcome{Class: "ok"}}
		}
		w := &World{t: t, plan: plan, rec: rec, dir: dir}
		w.setup(scn)
		w.rec.Emit("reset", KV{"family": "buffer", "urgent": true, "seed": seed, "note": ""})
		for i, s := range svcs {
			w.execCmd(Cmd{ID: fmt.Sprintf("c%d", i+1), Kind: "deploy", Svc: fmt.Sprintf("B%d", i+1), Hosts: []string{s.host}, Targets: []string{fmt.Sprintf("e%d", i+1)},
				BufReq: s.bufReq, BufResp: s.bufResp, MaxMem: s.maxMem, MaxReqBody: s.maxReq, MaxRespBody: s.maxResp, DeployTimeoutMs: 2000, DrainTimeoutMs: 500})
		}
		sizesFor := func(s bsvc, limit int64) []int {
			out := []int{0, 1, 2, 6, 7, 8, int(s.maxMem) - 1, int(s.maxMem), int(s.maxMem) + 1, 20000}
			if limit > 0 {
				out = append(out, int(limit)-1, int(limit), int(limit)+1, 2*int(limit))
			}
			var ok []int
			for _, v := range out {
				if v >= 0 {
					ok = append(ok, v)
				}
			}
			return ok
		}
		tmpLeft := func() int {
			m, _ := filepath.Glob(filepath.Join(dir, "proxy-buffer-*"))
			return len(m)
		}
		for i := 0; i < n; i++ {
			s := svcs[rng.Intn(len(svcs))]
			id := fmt.Sprintf("b%d", i)
			rs := sizesFor(s, s.maxReq)
			ps := sizesFor(s, s.maxResp)
			reqLen, respLen := rs[rng.Intn(len(rs))], ps[rng.Intn(len(ps))]
			sse := rng.Intn(8) == 0
			wantStatus := []int{200, 201, 404, 500}[rng.Intn(4)]
			flavour := ""
			if sse {
				flavour, wantStatus = "sse", 200
			}
			rq := rawReq{id: id, method: "POST", path: "/up" + id, host: s.host, body: patternBody(reqLen, byte(i)), chunked: rng.Intn(2) == 0 && reqLen > 0}
			rq.headers = [][2]string{{"X-Verif-Echo", id}, {"X-Verif-Resp", fmt.Sprintf("%d;%d;%s", wantStatus, respLen, flavour)}, {"X-Request-Id", id}}
			split := reqLen >= 2 && rng.Intn(3) == 0
			resp, sentAll := w.rawDoSplit(rq, split)
			synctest.Wait()
			seen := w.echo.get(id)
			if resp.err != "" && resp.status == 0 {
				w.rec.Emit("harness_error", KV{"what": fmt.Sprintf("buffer probe %s failed: %s", id, resp.err)})
				continue
			}
			want := []byte{}
			if respLen > 0 {
				want = patternBody(respLen, byte(len(id)))
			}
			kv := KV{"id": id, "req_len": reqLen, "resp_len": respLen, "buf_req": s.bufReq, "buf_resp": s.bufResp, "max_req": s.maxReq, "max_resp": s.maxResp,
				"max_mem": s.maxMem, "sse": sse, "status": resp.status, "want_status": wantStatus, "contacted": seen != nil, "req_ok": false,
				"resp_ok": bytes.Equal(resp.body, want) && resp.header.Get("Content-Type") != "", "got_len": len(resp.body), "err_len": len("Internal Server Error\n"),
				"seen_at": 0, "sent_all_at": sentAll, "split": split, "tmp_left": tmpLeft(), "chunked": rq.chunked}
			if seen != nil {
				kv["req_ok"] = bytes.Equal(seen.Body, rq.body)
				kv["seen_at"] = seen.At
			}
			w.rec.Emit("bufreq", kv)
		}
		// responses that arrive in pieces around the limits: a piece that breaks max-response-body followed by pieces that
		// would fit again, before and after the spill to disk has begun
		pi := 0
		for _, s := range svcs {
			if !s.bufResp || s.maxResp <= 0 {
				continue
			}
			m, mem := int(s.maxResp), int(s.maxMem)
			for _, ps := range [][]int{{mem / 2, m, mem + 10}, {mem + 10, m, 10}, {10, m + 1}, {m / 2, m / 2, 1}, {m / 2, m - m/2}, {1, mem, 1}} {
				pi++
				id := fmt.Sprintf("p%d", pi)
				total, strs := 0, []string{}
				for _, x := range ps {
					if x < 1 {
						x = 1
					}
					total += x
					strs = append(strs, strconv.Itoa(x))
				}
				rq := rawReq{id: id, method: "POST", path: "/p" + id, host: s.host, body: patternBody(5, 1)}
				rq.headers = [][2]string{{"X-Verif-Echo", id}, {"X-Verif-Resp", fmt.Sprintf("200;%d;parts:%s", total, strings.Join(strs, "-"))}, {"X-Request-Id", id}}
				resp, sentAll := w.rawDoSplit(rq, false)
				synctest.Wait()
				time.Sleep(20 * time.Millisecond)
				synctest.Wait()
				seen := w.echo.get(id)
				want := patternBody(total, byte(len(id)))
				kv := KV{"id": id, "req_len": 5, "resp_len": total, "buf_req": s.bufReq, "buf_resp": s.bufResp, "max_req": s.maxReq, "max_resp": s.maxResp,
					"max_mem": s.maxMem, "sse": false, "status": resp.status, "want_status": 200, "contacted": seen != nil, "req_ok": seen != nil && bytes.Equal(seen.Body, rq.body),
					"resp_ok": bytes.Equal(resp.body, want) && resp.header.Get("Content-Type") != "", "got_len": len(resp.body), "err_len": len("Internal Server Error\n"),
					"seen_at": 0, "sent_all_at": sentAll, "split": false, "tmp_left": tmpLeft(), "chunked": false}
				if seen != nil {
					kv["seen_at"] = seen.At
				}
				w.rec.Emit("bufreq", kv)
			}
		}
		// ways a request can end badly: the spill file must be gone afterwards in every case
		for i, fl := range []string{"die", "diemid", "die", "diemid"} {
			id := fmt.Sprintf("x%d", i)
			s := svcs[0]
			rq := rawReq{id: id, method: "POST", path: "/x", host: s.host, body: patternBody(6000, 1)}
			rq.headers = [][2]string{{"X-Verif-Echo", id}, {"X-Verif-Resp", "200;9000;" + fl}}
			w.rawDo(rq)
			synctest.Wait()
			time.Sleep(10 * time.Millisecond)
			synctest.Wait()
			if n := tmpLeft(); n != 0 {
				w.rec.Emit("bufreq", KV{"id": id, "req_len": 6000, "resp_len": 9000, "buf_req": true, "buf_resp": true, "max_req": 0, "max_resp": 0, "max_mem": 1024,
					"sse": false, "status": 200, "want_status": 200, "contacted": true, "req_ok": true, "resp_ok": true, "got_len": 0, "err_len": 0, "seen_at": 0,
					"sent_all_at": 0, "split": false, "tmp_left": n, "chunked": false})
			}
		}
		// client gives up half way through its body
		for i := 0; i < 3; i++ {
			id := fmt.Sprintf("a%d", i)
			conn, err := w.net.Dialer("client")(context.Background(), "mem", proxyHTTP)
			if err == nil {
				fmt.Fprintf(conn, "POST /x HTTP/1.1\r\nHost: b1.test\r\nX-Verif-Echo: %s\r\nContent-Length: 8000\r\n\r\n", id)
				conn.Write(patternBody(5000, 3))
				conn.Close()
			}
			synctest.Wait()
			time.Sleep(10 * time.Millisecond)
			synctest.Wait()
			if n := tmpLeft(); n != 0 {
				w.rec.Emit("bufreq", KV{"id": id, "req_len": 8000, "resp_len": 0, "buf_req": true, "buf_resp": true, "max_req": 0, "max_resp": 0, "max_mem": 1024,
					"sse": false, "status": 200, "want_status": 200, "contacted": true, "req_ok": true, "resp_ok": true, "got_len": 0, "err_len": 0, "seen_at": 0,
					"sent_all_at": 0, "split": false, "tmp_left": n, "chunked": false})
			}
		}
		time.Sleep(2 * time.Second)
		synctest.Wait()
		w.rec.Emit("end", nil)
		w.teardown()
	})
}

// rawDoSplit: like rawDo, optionally sending the body in two parts with a pause in between; returns the virtual time
// at which the last byte of the request had been written.
func (w *World) rawDoSplit(rq rawReq, split bool) (rawResp, int) {
	if !split || rq.chunked {
		r := w.rawDo(rq)
		return r, 0
	}
	conn, err := w.net.Dialer("client")(context.Background(), "mem", proxyHTTP)
	if err != nil {
		return rawResp{err: err.Error()}, 0
	}
	defer conn.Close()
	var b bytes.Buffer
	target := rq.path
	if rq.query != "" {
		target += "?" + rq.query
	}
	fmt.Fprintf(&b, "%s %s HTTP/1.1\r\nHost: %s\r\n", rq.method, target, rq.host)
	for _, kv := range rq.headers {
		fmt.Fprintf(&b, "%s: %s\r\n", kv[0], kv[1])
	}
	fmt.Fprintf(&b, "Content-Length: %d\r\nConnection: close\r\n\r\n", len(rq.body))
	half := len(rq.body) / 2
	sentAll := make(chan int, 1)
	go func() {
		conn.Write(b.Bytes())
		conn.Write(rq.body[:half])
		time.Sleep(300 * time.Millisecond)
		conn.Write(rq.body[half:])
		sentAll <- w.rec.Now()
	}()
	resp, err := http.ReadResponse(bufio.NewReader(conn), &http.Request{Method: rq.method})
	if err != nil {
		return rawResp{err: err.Error()}, 0
	}
	body, rerr := io.ReadAll(resp.Body)
	out := rawResp{status: resp.StatusCode, header: resp.Header, body: body}
	if rerr != nil {
		out.err = rerr.Error()
	}
	at := 0
	select {
	case at = <-sentAll:
	default:
	}
	return out, at
}
