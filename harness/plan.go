package harness

// A Plan is a complete, serialisable description of one scenario: what the
// operator lanes and client lanes will do, how each fake target behaves, and
// how the controller schedules. Together with the decision list it replays
// exactly.
type Plan struct {
	Family     string                  `json:"family"`
	Seed       int64                   `json:"seed"`
	Urgent     bool                    `json:"urgent"` // clock advances only when no internal step is pending
	Sched      string                  `json:"sched"`  // "random" | "pct" | "replay" | "free"
	Depth      int                     `json:"depth,omitempty"`
	Burst      bool                    `json:"burst,omitempty"`       // now and then release all parked goroutines at once
	SnapObs    bool                    `json:"snap_obs,omitempty"`    // observe the state file at every step of every snapshot write (C12)
	SnapSpin   int                     `json:"snap_spin,omitempty"`   // microseconds of real time spent inside snapshot steps
	ReadSpin   map[string]int          `json:"read_spin,omitempty"`   // target -> microseconds: after a barrier burst, the first read of that target's state is preceded by this much real time
	BurstEvery int                     `json:"burst_every,omitempty"` // a burst is tried every n-th step on average (default 6)
	Lanes      [][]Cmd                 `json:"lanes"`
	Clients    [][]Req                 `json:"clients"`
	Targets    map[string]TargetScript `json:"targets"`
	MaxSteps   int                     `json:"max_steps"`
	SettleMs   int                     `json:"settle_ms"`
	QuantumMs  int                     `json:"quantum_ms"`
	// Decisions to replay (Sched == "replay") or advice labels.
	Decisions []string `json:"decisions,omitempty"`
	// Sched == "barrier": goroutines are collected at the Barrier hooks until BarrierN of them are parked there, then
	// all are released at once so that the steps after those hooks race for real.
	// Entries are hook names ("pre_claim") or full keys ("hc_applied@hc:t1#1"). BarrierAfterMs: the barrier is armed
	// only from that virtual time on. BarrierFree: after the release nothing parks any more.
	Barrier        []string `json:"barrier,omitempty"`
	BarrierN       int      `json:"barrier_n,omitempty"`
	BarrierAfterMs int      `json:"barrier_after,omitempty"`
	BarrierFree    bool     `json:"barrier_free,omitempty"`
	// real nanoseconds by which a contender (full key) leaves the line-up after the others
	BarrierStaggerNs map[string]int `json:"barrier_stagger_ns,omitempty"`
	// Points that actually park goroutines; empty = all.
	ParkPoints []string `json:"park_points,omitempty"`
	Note       string   `json:"note,omitempty"`
}

type Cmd struct {
	ID              string   `json:"id"`
	Kind            string   `json:"kind"` // deploy rollout_deploy pause stop resume remove rollout_set rollout_stop list restart
	Svc             string   `json:"svc"`
	Targets         []string `json:"targets,omitempty"`
	Hosts           []string `json:"hosts,omitempty"`
	Paths           []string `json:"paths,omitempty"`
	DeployTimeoutMs int      `json:"dto,omitempty"`
	DrainTimeoutMs  int      `json:"drto,omitempty"`
	MaxPauseMs      int      `json:"max_pause,omitempty"`
	Msg             string   `json:"msg,omitempty"`
	Pct             int      `json:"pct,omitempty"`
	Allow           []string `json:"allow,omitempty"`
	// service/target options
	TLS           bool     `json:"tls,omitempty"`
	TLSRedirect   bool     `json:"tls_redirect,omitempty"`
	CertPath      string   `json:"cert,omitempty"`
	KeyPath       string   `json:"key,omitempty"`
	ErrorPages    string   `json:"error_pages,omitempty"`
	StripPrefix   bool     `json:"strip,omitempty"`
	HCIntervalMs  int      `json:"hc_interval,omitempty"`
	HCTimeoutMs   int      `json:"hc_timeout,omitempty"`
	HCPath        string   `json:"hc_path,omitempty"`
	RespTimeoutMs int      `json:"resp_timeout,omitempty"`
	BufReq        bool     `json:"buf_req,omitempty"`
	BufResp       bool     `json:"buf_resp,omitempty"`
	MaxMem        int64    `json:"max_mem,omitempty"`
	MaxReqBody    int64    `json:"max_req_body,omitempty"`
	MaxRespBody   int64    `json:"max_resp_body,omitempty"`
	ForwardHdrs   bool     `json:"forward_headers,omitempty"`
	LogReq        []string `json:"log_req,omitempty"`
	LogResp       []string `json:"log_resp,omitempty"`
	// WaitMs: virtual time the lane waits before issuing this command
	// (0 = as soon as the controller lets it).
	WaitMs int `json:"wait,omitempty"`
	// After: id of a command that must have returned before this one is issued.
	After string `json:"after,omitempty"`
}

type Req struct {
	ID      string `json:"id"`
	Svc     string `json:"svc"` // the service this request is aimed at (by host/path)
	Host    string `json:"host"`
	Path    string `json:"path"`
	Method  string `json:"method,omitempty"`
	Kind    string `json:"kind"` // plain | slow | forever | upgrade
	HoldMs  int    `json:"hold,omitempty"`
	Chunked bool   `json:"chunked,omitempty"` // slow only: the target sends half of the body at once, the rest after HoldMs
	Cookie  string `json:"cookie,omitempty"`
	HC      bool   `json:"hc,omitempty"` // GET on exactly the health-check path
	TLS     bool   `json:"tls,omitempty"`
	AbortMs int    `json:"abort,omitempty"` // client gives up after this long (0 = never)
	WaitMs  int    `json:"wait,omitempty"`
	After   string `json:"after,omitempty"` // command that must have returned first
	Sync    bool   `json:"sync,omitempty"`  // the lane waits for this request's answer before going on
}

// ProbeOutcome: how a fake target treats one health probe.
type ProbeOutcome struct {
	Class   string `json:"class"` // ok | bad | slow | refuse
	Status  int    `json:"status,omitempty"`
	DelayMs int    `json:"delay,omitempty"`
}

type TargetScript struct {
	Probes []ProbeOutcome `json:"probes,omitempty"` // consumed in order
	Then   ProbeOutcome   `json:"then"`             // afterwards
}
