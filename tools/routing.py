"""Plans for the sequential families from TLC behaviours of spec/MC_Routing.tla.
The index tables mirror HostSets / PathSets / TlsOpts of that module."""
import json, random, re, itertools

HOSTSETS = [[""], ["a.d"], ["*.d"], ["b.a.d"], ["a.d", "b.a.d"], ["*.d", "a.d"], ["d"], ["::1", "[::1]"]]
PATHSETS = [["/"], ["/api"], ["/apiary"], ["/api/v1"], ["/", "/api"], ["/api", "/api/v1"]]
TLSOPTS = [dict(tls=False, redirect=True, acme=False), dict(tls=True, redirect=True, acme=False),
           dict(tls=True, redirect=False, acme=False), dict(tls=True, redirect=True, acme=True)]
REQ_HOSTS = ["a.d", "a.d:8080", "b.a.d", "c.d", "c.b.a.d", "d", "x.y", "localhost", "[::1]:80", "[::1]", "b.a.d:443"]
REQ_PATHS = ["/", "/api", "/api/", "/apiary", "/api/v1", "/api/v1/x", "/api//x", "//api", "/x", "/apiv1"]
SNI = ["a.d", "b.a.d", "c.d", "d", "x.y", "c.b.a.d"]

LABEL = re.compile(r"<(DoDeploy|DoRemove)\(([^)]*)\) line")


def steps_from_text(txt):
    steps = []
    for m in LABEL.finditer(txt):
        a = [x.strip().strip('"') for x in m.group(2).split(",")]
        if m.group(1) == "DoDeploy":
            hi, pi, ti = int(a[1]), int(a[2]), int(a[3])
            hosts = [h for h in HOSTSETS[hi - 1] if h != ""]
            st = dict(op="deploy", svc=a[0], hosts=hosts, paths=PATHSETS[pi - 1], strip=True, **TLSOPTS[ti - 1])
            steps.append(st)
        else:
            steps.append(dict(op="remove", svc=a[0]))
    return steps


def plan(steps, note=""):
    return dict(steps=steps, req_hosts=REQ_HOSTS, req_paths=REQ_PATHS, sni=SNI, note=note)


def with_restarts(steps, rng, k=1):
    out = list(steps)
    for _ in range(k):
        out.insert(rng.randint(1, len(out)), dict(op="restart"))
    return out


def permutations_same_table(steps, rng, limit=3):
    """Other orders of the successful deploys of a history (same resulting set when they do not conflict)."""
    deploys = [s for s in steps if s["op"] == "deploy"]
    if len(deploys) < 2 or len(deploys) > 4:
        return []
    perms = list(itertools.permutations(deploys))[1:]
    rng.shuffle(perms)
    return [list(p) for p in perms[:limit]]
