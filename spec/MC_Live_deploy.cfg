SPECIFICATION FairSpec
CONSTANTS
  t1 = t1
  t2 = t2
  t3 = t3
  t4 = t4
  r1 = r1
  r2 = r2
  r3 = r3
  NoTarget = NoTarget
  Cmds <- MCCmds
  Group <- MCGroupS
  Reqs = {r1}
  Kinds = {"plain", "forever", "upgrade"}
  MaxProbes = 1
  AllowBad = TRUE
  SignalAfterNotify = TRUE
  Exempt = TRUE
INVARIANTS
  TypeOK
PROPERTIES
  L_CommandsReturn
  L_RequestsAnswered
  L_HeldLeaves
  L_ProbesStop
  L_DrainsComplete
CHECK_DEADLOCK TRUE
