#!/usr/bin/env python3
"""Design-level trace validation: internal hook events of one recorded scenario, rewritten into the vocabulary of
spec/ProxyTrace.tla, must be a behaviour of spec/Proxy.tla (layer D).

  scenarios(trace.ndjson)            -> iterator of (scn, raw events)
  translate(events)                  -> (header+lines, None) or (None, reason it is out of D's scope)
  validate(paths, limit, procs)      -> summary dict

The translation is line by line and uses logged fields only; the two synthetic lines (PreRet before a command's
return, NotFound) are determined by the logged result of that command.
"""
import json, os, subprocess, sys, tempfile, shutil, collections
from concurrent.futures import ThreadPoolExecutor

import vlib

FAMILIES = ("deploy", "pause", "health", "rollout", "guided")
PSTATE = {0: "running", 1: "paused", 2: "stopped"}
KIND = {"deploy": "deploy", "pause": "pause", "stop": "stop", "resume": "resume",
        "rollout_deploy": "rdeploy", "rollout_set": "rset", "rollout_stop": "rstop", "remove": "remove"}
RES = {"ok": "ok", "unhealthy": "unhealthy", "not_found": "not_found", "rollout_not_set": "not_set"}


def scenarios(path):
    cur, scn = [], None
    for line in open(path):
        e = json.loads(line)
        if e["ev"] == "reset":
            if cur:
                yield scn, cur
            cur, scn = [], e["scn"]
        cur.append(e)
    if cur:
        yield scn, cur


def translate(evs):
    reset = evs[0]
    if reset.get("family") not in FAMILIES:
        return None, "family"
    if reset.get("burst") or reset.get("sched") in ("free",) or reset.get("spin"):
        return None, "uncontrolled"
    if reset.get("lanes", 1) != 1:
        return None, "overlapping commands"
    urgent = bool(reset.get("urgent"))
    # cut at the settle phase (everything runs free from there on)
    body = []
    for e in evs[1:]:
        if e["ev"] in ("x_settle", "end"):
            break
        body.append(e)
    class _Ids(dict):
        def __missing__(self, key):      # an object the scenario's commands did not create: no design action matches -1
            return -1
    cmds, groups, cidx = [], [], _Ids()
    seen_targets = set()
    reqs, skip_reqs = [], set()
    for e in body:
        if e["ev"] == "cmd_call":
            if e["kind"] not in KIND:
                return None, "command kind " + e["kind"]
            if e.get("svc") != "A":
                return None, "other service"
            cidx[e["c"]] = len(cmds) + 1
            cmds.append(KIND[e["kind"]])
            g = sorted(set(e.get("targets") or [])) if e["kind"] in ("deploy", "rollout_deploy") else []
            if seen_targets & set(g):
                return None, "target reused"
            seen_targets |= set(g)
            groups.append(g)
        elif e["ev"] == "cli_send":
            if e.get("hc") or e.get("abort") or e.get("svc") != "A" or e.get("tls"):
                skip_reqs.add(e["r"])
            else:
                reqs.append(e["r"])
    if not cmds:
        return None, "no commands"
    ver2k, lb2k = _Ids({0: 0}), _Ids({0: 0})
    out = [{"a": "header", "cmds": cmds, "groups": groups, "reqs": reqs}]
    open_cmd, pc_seen, kinds = None, False, {}
    for e in body:
        ev = e["ev"]
        r = e.get("r")
        if r is not None and (r in skip_reqs or (ev != "cli_send" and r not in kinds)):
            if ev not in ("e_drain_snapshot",):
                continue
        if ev == "cmd_call":
            if open_cmd is not None:
                return None, "overlapping commands"
            open_cmd, pc_seen = e, False
            if e["kind"] == "deploy":
                out.append({"a": "DepCall", "k": cidx[e.get("c")]})
            elif e["kind"] == "rollout_deploy":
                pc_seen = True           # RdCall itself decides between "not found" and the deploy
                out.append({"a": "RdCall", "k": cidx[e.get("c")]})
        elif ev == "e_dep_new_lb":
            if e.get("slot", 0) == 0:    # a rollout deploy works on the installed service object itself
                ver2k[e["ver"]] = cidx[e.get("c")]
            lb2k[e["lb"]] = cidx[e.get("c")]
        elif ev in ("e_rollout_split", "e_rollout_split_refused"):
            if open_cmd is None:
                return None, "rollout change outside a command"
            pc_seen = True
            k = cidx[open_cmd["c"]]
            if ev == "e_rollout_split" and not e.get("on"):
                out.append({"a": "RsStop", "k": k})
            else:
                out.append({"a": "RsSet", "k": k, "res": "ok" if ev == "e_rollout_split" else "not_set"})
        elif ev == "cmd_ret":
            k = cidx[e.get("c")]
            if e["res"] not in RES:
                return None, "result " + e["res"]
            if open_cmd["kind"] != "deploy" and not pc_seen:
                out.append({"a": "NotFound", "k": k})
            out.append({"a": "PreRet", "k": k})
            out.append({"a": "Ret", "k": k, "res": RES[e["res"]]})
            open_cmd = None
        elif ev == "e_remove":
            if open_cmd is None or open_cmd["kind"] != "remove":
                return None, "remove outside a remove command"
            pc_seen = True
            out.append({"a": "Remove", "k": cidx[open_cmd["c"]]})
        elif ev == "e_pause_state":
            if open_cmd is None:
                return None, "pause state change outside a command"
            pc_seen = True
            out.append({"a": "Pc", "k": cidx[open_cmd["c"]], "state": PSTATE[e["state"]]})
        elif ev == "y_hc_result":
            out.append({"a": "ProbeResult", "t": e["tg"], "ok": bool(e["ok"])})
        elif ev == "e_hc_apply":
            out.append({"a": "HcApply", "t": e["tg"], "ok": bool(e["ok"]), "state": e["state"]})
        elif ev == "e_rotation":
            out.append({"a": "Rotation", "lb": lb2k[e["lb"]], "healthy": e["healthy"]})
        elif ev == "y_hc_notified":
            out.append({"a": "HcNotified", "t": e["tg"]})
        elif ev == "e_hc_close":
            out.append({"a": "HcClose", "t": e["tg"]})
        elif ev == "y_dep_healthy":
            out.append({"a": "DepHealthy", "k": cidx[e.get("c")]})
        elif ev == "e_update_lb":
            out.append({"a": "UpdateLb", "k": cidx[e.get("c")], "lb": lb2k[e["lb"]], "slot": e.get("slot", 0)})
        elif ev == "e_install":
            out.append({"a": "Install", "k": cidx[e.get("c")], "ver": ver2k[e.get("ver", 0)]})
        elif ev == "y_dep_drained":
            out.append({"a": "DepDrained", "k": cidx[e.get("c")]})
        elif ev == "y_drain_start":
            out.append({"a": "DrainStart", "t": e["tg"]})
        elif ev == "e_target_state":
            out.append({"a": "TargetState", "t": e["tg"], "state": e["state"], "was": e["was"]})
        elif ev == "e_drain_snapshot":
            out.append({"a": "DrainSnapshot", "t": e["tg"], "rs": [x for x in e["rs"] if x in kinds]})
        elif ev == "y_drain_deadline":
            out.append({"a": "DrainWaited", "t": e["tg"]})
        elif ev == "x_rel" and e.get("point") == "drain_deadline":
            # what is still running is cancelled when the drain goroutine goes on from the hook, not when it arrives there
            out.append({"a": "DrainDeadline", "t": e["actor"].split(":", 1)[1].split("#")[0]})
        elif ev == "cli_send":
            k = e["kind"]
            dk = "slowupgrade" if k in ("upgrade", "slowupgrade") else ("plain" if (k == "plain" and urgent) else "slow")
            kinds[r] = dk
            out.append({"a": "Send", "r": r, "kind": dk})
        elif ev == "y_routed":
            out.append({"a": "Routed", "r": r, "ver": ver2k[e.get("ver", 0)]})
        elif ev == "y_wait_snapshot":
            out.append({"a": "Gate", "r": r, "state": PSTATE[e["state"]]})
        elif ev == "y_wait_released":
            out.append({"a": "Released", "r": r})
        elif ev == "y_gate_passed":
            out.append({"a": "GatePassed", "r": r})
        elif ev == "y_pre_claim":
            out.append({"a": "PreClaim", "r": r, "lb": lb2k[e["lb"]]})
        elif ev == "e_claim":
            out.append({"a": "Claim", "r": r, "t": e["tg"]})
        elif ev == "e_claim_refused":
            out.append({"a": "ClaimRefused", "r": r, "t": e["tg"]})
        elif ev == "e_claim_none":
            out.append({"a": "ClaimNone", "r": r})
        elif ev == "tg_beg":
            if kinds[r] != "slowupgrade":
                out.append({"a": "Begin", "r": r})
        elif ev == "e_hijacked":
            if kinds[r] == "slowupgrade":
                out.append({"a": "Begin", "r": r})
        elif ev == "e_end_inflight":
            out.append({"a": "EndInflight", "r": r, "t": e["tg"]})
        elif ev == "cli_recv":
            if e["status"] != 101:
                out.append({"a": "Recv", "r": r, "status": e["status"]})
    return out, None


def translate_snap(evs):
    """snap family -> vocabulary of spec/SnapTrace.tla"""
    reset = evs[0]
    if reset.get("family") != "snap":
        return None, "family"
    if reset.get("burst") or reset.get("sched") in ("free",) or reset.get("spin"):
        return None, "uncontrolled"
    out, cmds, held, began, late = [None], [], {}, set(), []
    for e in evs[1:]:
        ev, c = e["ev"], e.get("c")
        if ev in ("x_settle", "end"):
            break
        if ev == "cmd_call":
            cmds.append(c)
            out.append({"a": "Start", "c": c})
        elif ev == "mem_obs":
            out.append({"a": "Mem", "cfg": e["cfg"]})
        elif ev == "file_obs":
            ln = {"a": "File", "ok": bool(e["ok"]), "cfg": e["cfg"], "point": e["point"]}
            if e["point"] in ("snap_listed", "snap_created", "snap_written"):
                held[(c, e["point"])] = ln          # recorded just before the yield event of the same hook
            elif held:
                late.append(ln)                     # a sample taken between a hook's observation and its yield event:
            else:                                   # the step it saw is bound at the yield event, so it goes after it
                out.append(ln)
        elif ev == "y_snap_begin":
            began.add(c)
            out.append({"a": "SnapBegin", "c": c})
        elif ev in ("y_snap_listed", "y_snap_created", "y_snap_written"):
            acts = {"y_snap_listed": ["Acquire", "List"], "y_snap_created": ["Create"], "y_snap_written": ["Write", "Rename"]}[ev]
            out += [{"a": a, "c": c} for a in acts]
            ln = held.pop((c, ev[2:]), None)
            if ln:
                out.append(ln)
            if not held:
                out += late
                late = []
            if ev == "y_snap_written":
                out.append({"a": "Release", "c": c})
        elif ev == "cmd_ret":
            out.append({"a": "Return" if c in began else "ReturnWithoutSave", "c": c})
    if not cmds:
        return None, "no commands"
    out[0] = {"a": "header", "cmds": cmds}
    return out, None


def translate_own(evs):
    """own family (racing deploys / removes of several services) -> vocabulary of spec/OwnTrace.tla"""
    reset = evs[0]
    if reset.get("family") != "own":
        return None, "family"
    if reset.get("sched") in ("free",) or reset.get("spin"):
        return None, "uncontrolled"
    # every line but the probe-loop observation comes from an emit made at a linearization point (or from a yield whose
    # guard is monotone), so scenarios with bursts are bound too - without the observation, which is taken a moment
    # after the return and may then already include another command's step
    bursty = bool(reset.get("burst"))
    out, cmds, info, lb_of, called = [None], [], [], {}, set()
    for e in evs[1:]:
        ev, c = e["ev"], e.get("c")
        if ev in ("x_settle", "end"):
            break
        if ev == "cmd_call":
            if e["kind"] not in ("deploy", "remove", "rollout_deploy"):
                return None, "command kind " + e["kind"]
            hosts = e.get("hosts") or [""]
            paths = e.get("paths") or ["/"]
            bind = sorted({h + "|" + p for h in hosts for p in paths}) if e["kind"] == "deploy" else []
            cmds.append(c)
            info.append({"kind": {"rollout_deploy": "rdeploy"}.get(e["kind"], e["kind"]), "name": e["svc"], "bind": bind})
            for t in e.get("targets") or []:
                if t in lb_of:
                    return None, "target reused"
                lb_of[t] = c
        elif ev == "e_dep_new_lb":
            called.add(c)
            out.append({"a": "Call" if e.get("slot", 0) == 0 else "RdCall", "c": c})
        elif ev == "e_update_lb":
            out.append({"a": "UpdateSlot", "c": c})
        elif ev == "e_not_found":
            if c is None:
                return None, "lookup outside a command"
            out.append({"a": "NotFound", "c": c})
        elif ev == "y_dep_healthy":
            out.append({"a": "WaitOk", "c": c})
        elif ev == "e_install":
            out.append({"a": "Install", "c": c})
        elif ev == "e_install_conflict":
            out.append({"a": "Conflict", "c": c})
        elif ev == "e_remove":
            if c is None:
                return None, "remove outside a command"
            out.append({"a": "Remove", "c": c})
        elif ev == "e_hc_close":
            if e["tg"] not in lb_of:
                return None, "unknown target"
            out.append({"a": "Close", "lb": lb_of[e["tg"]]})
        elif ev == "cmd_ret":
            k = info[cmds.index(c)]["kind"]
            if k == "deploy" and c not in called:
                return None, "deploy refused before it began"
            if k == "rdeploy" and c not in called and e["res"] != "not_found":
                return None, "rollout deploy refused before it began"
            if e["res"] not in ("ok", "unhealthy", "host_in_use", "not_found"):
                return None, "result " + e["res"]
            out.append({"a": "PreRet", "c": c})
            out.append({"a": "Return", "c": c, "res": e["res"]})
        elif ev == "probing_obs" and not bursty:
            if any(t not in lb_of for t in e["tgs"]):
                return None, "unknown target"
            out.append({"a": "Probing", "lbs": sorted({lb_of[t] for t in e["tgs"]})})
    if not cmds:
        return None, "no commands"
    out[0] = {"a": "header", "cmds": cmds, "info": info}
    return out, None


KINDS = {"proxy": ("ProxyTrace", None), "snap": ("SnapTrace", None), "own": ("OwnTrace", None)}


def _run_one(args):
    wd, idx, lines, module = args
    tf = os.path.join(wd, "t%05d.ndjson" % idx)
    of = os.path.join(wd, "t%05d.out.json" % idx)
    with open(tf, "w") as f:
        for ln in lines:
            f.write(json.dumps(ln) + "\n")
    md = tempfile.mkdtemp(prefix="md-", dir=wd)
    # many short single-threaded JVMs side by side: keep each one small
    env = dict(os.environ, VERIF_TRACE=tf, VERIF_OUT=of,
               JAVA_TOOL_OPTIONS=vlib.java_opts("-XX:ParallelGCThreads=1 -Xmx1g -XX:TieredStopAtLevel=1 -XX:CICompilerCount=1"))
    p = subprocess.run(["timeout", "120", "tlc", "-workers", "1", "-metadir", md, "-config", module + ".cfg", module + ".tla"],
                       cwd=wd, env=env, capture_output=True, text=True)
    shutil.rmtree(md, ignore_errors=True)
    res = {"idx": idx, "rc": p.returncode, "lines": len(lines)}
    try:
        o = json.load(open(of))
        res.update(reached=o["reached"], next=o.get("next"))
    except Exception:
        res.update(reached=None, tail=p.stdout[-1500:])
    if p.returncode != 0:
        res["errors"] = [ln for ln in p.stdout.splitlines() if ln.startswith("Error:")][:4]
        if "tail" not in res:
            res["tail"] = p.stdout[-800:]
    return res


def validate(trace_paths, limit=None, procs=None, kind="proxy"):
    """Translate and validate scenarios; returns dict(validated, accepted, skipped{reason:n}, rejected[...], events)."""
    wd = vlib.spec_copy("dtrace")
    module = KINDS[kind][0]
    tr = {"proxy": translate, "snap": translate_snap, "own": translate_own}[kind]
    jobs, skipped, actions = [], collections.Counter(), collections.Counter()
    meta = {}
    per_path = []
    for tp in trace_paths:
        cands = []
        for scn, evs in scenarios(tp):
            lines, why = tr(evs)
            if lines is None:
                skipped[why] += 1
            else:
                cands.append((tp, scn, lines))
        per_path.append(cands)
    # under a limit take scenarios from all trace files in turn (families, guided schedules)
    order, i = [], 0
    while any(per_path):
        for c in per_path:
            if c:
                order.append(c.pop(0))
    for tp, scn, lines in order:
        if limit and len(jobs) >= limit:
            skipped["over the tier's limit"] += 1
            continue
        for ln in lines[1:]:
            actions[ln["a"]] += 1
        meta[len(jobs)] = (tp, scn)
        jobs.append((wd, len(jobs), lines, module))
    with ThreadPoolExecutor(max_workers=procs or vlib.NCPU) as ex:
        results = list(ex.map(_run_one, jobs))
    rejected, broken = [], []
    for r in results:
        tp, scn = meta[r["idx"]]
        r["scenario"] = scn
        r["trace"] = tp
        if r["reached"] is None or r["rc"] != 0:
            broken.append(r)
        elif r["reached"] < r["lines"]:
            r["prefix"] = jobs[r["idx"]][2][:r["reached"] + 2]      # header, the accepted lines, the line that was refused
            rejected.append(r)
    out = dict(validated=len(jobs), accepted=len(jobs) - len(rejected) - len(broken), skipped=dict(skipped),
               rejected=rejected, broken=broken, actions=dict(actions), events=sum(j[2].__len__() for j in jobs), wd=wd)
    return out


if __name__ == "__main__":
    res = validate(sys.argv[2:], kind=sys.argv[1])
    wd = res.pop("wd")
    print(json.dumps({k: v for k, v in res.items() if k not in ("rejected", "broken")}, indent=1))
    for r in res["rejected"][:10]:
        print("REJECTED", r["scenario"], "at line", r["reached"], "of", r["lines"], json.dumps(r["next"]))
    for r in res["broken"][:5]:
        print("BROKEN", r["scenario"], r["rc"], r.get("tail", "")[-1200:])
    print("scratch:", wd)
