SPECIFICATION Spec
CONSTANTS
  Cmds <- C3
  Kind <- Kind3
  Name <- Name3
  Bind <- Bind3
  MayFail = TRUE
  AtomicInstall = TRUE
  CheckOnRollout = TRUE
  DisposeOnConflict = FALSE
INVARIANTS
  O_FailedLeavesNothing
CHECK_DEADLOCK TRUE
