INIT Init
NEXT Next
POSTCONDITION Accepted
CHECK_DEADLOCK FALSE
