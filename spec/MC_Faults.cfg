SPECIFICATION Spec
CONSTANTS
  Timeout = 3
  MaxSeq = 3
INVARIANTS
  Inv_WellFormed
  Inv_EarlyNeverCut
  Inv_LateAlwaysCut
  Inv_NoResidue
CHECK_DEADLOCK FALSE
