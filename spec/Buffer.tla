------------------------------- MODULE Buffer -------------------------------
(***************************************************************************)
(* C14: the body buffer.  maxMem bytes at most are kept in memory, the     *)
(* rest spills to a temporary file; with maxBytes > 0 a body longer than   *)
(* maxBytes overflows and is rejected as a whole.                          *)
(*                                                                         *)
(*   Write(st, n)  the buffer after a write of n bytes                     *)
(*   Outcome       what the client and the target must observe             *)
(***************************************************************************)
EXTENDS Integers, Sequences, FiniteSets

Fresh == [mem |-> 0, disk |-> 0, over |-> FALSE, spilled |-> FALSE]

\* A write that would take the total past maxBytes is refused as a whole and marks the buffer (the mark stays); the buffer
\* goes on accepting later writes that fit - the response is discarded at the end anyway (what the code does; the
\* response middleware keeps feeding the buffer after an overflow, because an error would make ReverseProxy panic)
Write(st, n, maxMem, maxBytes) ==
  IF maxBytes > 0 /\ st.mem + st.disk + n > maxBytes THEN [st EXCEPT !.over = TRUE]
  ELSE IF ~st.spilled /\ st.mem + n <= maxMem THEN [st EXCEPT !.mem = @ + n]
  ELSE LET toMem == IF st.spilled THEN 0 ELSE maxMem - st.mem
       IN [st EXCEPT !.mem = @ + toMem, !.disk = @ + (n - toMem), !.spilled = TRUE]

RECURSIVE WriteAll(_, _, _, _)
WriteAll(st, ws, maxMem, maxBytes) ==
  IF ws = <<>> THEN st ELSE WriteAll(Write(st, Head(ws), maxMem, maxBytes), Tail(ws), maxMem, maxBytes)

RECURSIVE Sum(_)
Sum(ws) == IF ws = <<>> THEN 0 ELSE Head(ws) + Sum(Tail(ws))

\* invariants of the buffer, for every sequence of writes
MemBounded(st, maxMem) == st.mem <= maxMem
Conserved(st, ws) == ~st.over => st.mem + st.disk = Sum(ws)
Overflows(st, ws, maxBytes) == st.over <=> (maxBytes > 0 /\ Sum(ws) > maxBytes)

\* request side: too large -> 413 and the target is not contacted; else the target sees exactly the body
ReqOutcome(len, bufReq, maxReq) == IF bufReq /\ maxReq > 0 /\ len > maxReq THEN "413" ELSE "forwarded"
\* response side: too large -> 500 and none of the body; event streams bypass the buffer
RespOutcome(len, bufResp, maxResp, sse) == IF bufResp /\ ~sse /\ maxResp > 0 /\ len > maxResp THEN "500" ELSE "delivered"
=============================================================================
