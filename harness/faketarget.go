package harness

import (
	"fmt"
	"net"
	"net/http"
	"strconv"
	"sync"
	"time"
)

// FakeTarget is a real http.Server on the in-memory network whose behaviour is
// scripted: probes follow the TargetScript, client requests describe in their
// own headers what the target should do with them.
type FakeTarget struct {
	w      *World
	name   string
	script TargetScript
	ln     net.Listener
	srv    *http.Server

	mu     sync.Mutex
	probeK int // probes seen so far (including refused dials)
}

func newFakeTarget(w *World, name string, script TargetScript) *FakeTarget {
	ft := &FakeTarget{w: w, name: name, script: script}
	ln, err := w.net.Listen(name)
	if err != nil {
		panic(err)
	}
	ft.ln = ln
	ft.srv = &http.Server{Handler: http.HandlerFunc(ft.serve)}
	go ft.srv.Serve(ln)
	return ft
}

func (ft *FakeTarget) close() {
	ft.srv.Close()
}

func (ft *FakeTarget) outcome(k int) ProbeOutcome {
	if k < len(ft.script.Probes) {
		return ft.script.Probes[k]
	}
	o := ft.script.Then
	if o.Class == "" {
		o.Class = "ok"
	}
	return o
}

// onProbeDial: a probe is about to connect. A "refuse" outcome is consumed here.
func (ft *FakeTarget) onProbeDial() error {
	ft.mu.Lock()
	o := ft.outcome(ft.probeK)
	k := ft.probeK
	if o.Class == "refuse" {
		ft.probeK++
	}
	ft.mu.Unlock()
	if o.Class == "refuse" {
		ft.w.rec.Emit("tg_probe", KV{"tg": ft.name, "k": k, "cls": "refuse"})
		ft.w.rec.Emit("tg_probe_reply", KV{"tg": ft.name, "k": k, "status": 0, "cls": "refuse"})
		return errRefused
	}
	return nil
}

func (ft *FakeTarget) serve(rw http.ResponseWriter, r *http.Request) {
	if r.Header.Get("User-Agent") == "kamal-proxy" && r.Header.Get("X-Verif-Rid") == "" {
		ft.serveProbe(rw, r)
		return
	}
	ft.serveRequest(rw, r)
}

func (ft *FakeTarget) serveProbe(rw http.ResponseWriter, r *http.Request) {
	ft.mu.Lock()
	k := ft.probeK
	ft.probeK++
	o := ft.outcome(k)
	ft.mu.Unlock()
	ft.w.rec.Emit("tg_probe", KV{"tg": ft.name, "k": k, "cls": o.Class, "path": r.URL.Path})
	if o.DelayMs > 0 {
		select {
		case <-time.After(ms(o.DelayMs)):
		case <-r.Context().Done():
			ft.w.rec.Emit("tg_probe_reply", KV{"tg": ft.name, "k": k, "status": 0, "cls": "gaveup"})
			return
		case <-ft.w.stop:
			return
		}
	}
	status := o.Status
	switch o.Class {
	case "ok", "slow":
		if status == 0 {
			status = 200
		}
	case "bad":
		if status == 0 {
			status = 500
		}
	default:
		if status == 0 {
			status = 200
		}
	}
	cls := "bad"
	if status >= 200 && status <= 299 {
		cls = "ok"
	}
	select {
	case <-r.Context().Done():
		ft.w.rec.Emit("tg_probe_reply", KV{"tg": ft.name, "k": k, "status": 0, "cls": "gaveup"})
		return
	default:
	}
	ft.w.rec.Emit("tg_probe_reply", KV{"tg": ft.name, "k": k, "status": status, "cls": cls})
	rw.WriteHeader(status)
	fmt.Fprint(rw, "probe")
}

func (ft *FakeTarget) serveRequest(rw http.ResponseWriter, r *http.Request) {
	if r.Header.Get("X-Verif-Echo") != "" {
		ft.serveEcho(rw, r)
		return
	}
	rid := r.Header.Get("X-Verif-Rid")
	kind := r.Header.Get("X-Verif-Kind")
	hold, _ := strconv.Atoi(r.Header.Get("X-Verif-Hold"))
	ft.w.rec.Emit("tg_beg", KV{"tg": ft.name, "r": rid, "path": r.URL.Path, "kind": kind})

	if kind == "slowupgrade" {
		select {
		case <-time.After(ms(hold)):
		case <-r.Context().Done():
			ft.w.rec.Emit("tg_end", KV{"tg": ft.name, "r": rid, "how": "cancelled"})
			return
		case <-ft.w.stop:
			return
		}
	}
	if kind == "upgrade" || kind == "slowupgrade" {
		hj, ok := rw.(http.Hijacker)
		if !ok {
			rw.WriteHeader(500)
			ft.w.rec.Emit("tg_end", KV{"tg": ft.name, "r": rid, "how": "nohijack"})
			return
		}
		conn, brw, err := hj.Hijack()
		if err != nil {
			ft.w.rec.Emit("tg_end", KV{"tg": ft.name, "r": rid, "how": "nohijack"})
			return
		}
		defer conn.Close()
		go func() {
			<-ft.w.stop
			conn.Close()
		}()
		fmt.Fprintf(brw, "HTTP/1.1 101 Switching Protocols\r\nUpgrade: websocket\r\nConnection: Upgrade\r\nX-Verif-Origin: %s\r\n\r\n", ft.name)
		brw.Flush()
		buf := make([]byte, 256)
		for {
			_, err := brw.Read(buf)
			if err != nil {
				break
			}
		}
		ft.w.rec.Emit("tg_end", KV{"tg": ft.name, "r": rid, "how": "closed"})
		return
	}

	if kind == "slow" && r.Header.Get("X-Verif-Chunked") == "1" {
		// the response is under way (status, headers and half of the body delivered) while the request is held
		body := expectedBody(ft.name, rid)
		rw.Header().Set("X-Verif-Origin", ft.name)
		rw.Header().Set("X-Verif-Path", r.URL.EscapedPath())
		rw.Header().Set("Content-Type", "text/plain")
		rw.WriteHeader(200)
		fmt.Fprint(rw, body[:len(body)/2])
		if f, ok := rw.(http.Flusher); ok {
			f.Flush()
		}
		select {
		case <-time.After(ms(hold)):
		case <-r.Context().Done():
			ft.w.rec.Emit("tg_end", KV{"tg": ft.name, "r": rid, "how": "cancelled"})
			return
		case <-ft.w.stop:
			return
		}
		ft.w.rec.Emit("tg_end", KV{"tg": ft.name, "r": rid, "how": "replied"})
		fmt.Fprint(rw, body[len(body)/2:])
		return
	}
	switch kind {
	case "slow":
		select {
		case <-time.After(ms(hold)):
		case <-r.Context().Done():
			ft.w.rec.Emit("tg_end", KV{"tg": ft.name, "r": rid, "how": "cancelled"})
			return
		case <-ft.w.stop:
			return
		}
	case "forever":
		select {
		case <-r.Context().Done():
			ft.w.rec.Emit("tg_end", KV{"tg": ft.name, "r": rid, "how": "cancelled"})
			return
		case <-ft.w.stop:
			return
		}
	}
	rw.Header().Set("X-Verif-Origin", ft.name)
	rw.Header().Set("X-Verif-Path", r.URL.EscapedPath())
	rw.Header().Set("Content-Type", "text/plain")
	ft.w.rec.Emit("tg_end", KV{"tg": ft.name, "r": rid, "how": "replied"})
	rw.WriteHeader(200)
	fmt.Fprint(rw, expectedBody(ft.name, rid))
}
