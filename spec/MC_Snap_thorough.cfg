SPECIFICATION Spec
CONSTANTS
  Cmds <- MCCmds
  Cfgs <- MCCfgs
  Init0 = "k0"
  Atomic = TRUE
  Locked = TRUE
  MaxMut = 4
INVARIANTS
  S_Complete
  S_Window
  S_Current
  S_Mutex
CHECK_DEADLOCK TRUE
