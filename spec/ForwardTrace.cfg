INIT TInit
NEXT TNext
POSTCONDITION Accepted
CHECK_DEADLOCK FALSE
